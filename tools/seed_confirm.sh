#!/bin/bash
# usage: tools/seed_confirm.sh <worktree> "<demo command run inside the worktree>"
# Confirms a seeded change in its scratch worktree: (a) builds, (b) the 221 baseline tests still pass,
# (c) the demonstration fails with the change and passes without it.
set -u
WT="$1"; DEMO="$2"
export GOFLAGS=-mod=mod GOPROXY=off GOSUMDB=off
cd "$WT" || exit 2
PATCH="$WT/SEED/patch.diff"
echo "== files touched by patch:"; grep '^+++ ' "$PATCH"
echo "== (a) build"; go build ./... && echo BUILD-OK || { echo BUILD-FAILED; exit 1; }
echo "== (b) baseline suite with the change"
go test -mod=mod -json -vet=off -count=1 -timeout 25m ./... > /tmp/seed_baseline.$$.json 2>/dev/null
python3 - "$$" <<'PY'
import json,sys
base=json.load(open('/root/.vp/BASELINE.json')); stable=set(base['stable_pass']); res={}
for l in open('/tmp/seed_baseline.%s.json'%sys.argv[1]):
    try: e=json.loads(l)
    except: continue
    if e.get('Test') and e.get('Action') in('pass','fail','skip'): res[e['Package']+'::'+e['Test']]=e['Action']
missing=[t for t in stable if res.get(t)!='pass']
print('BASELINE passing %d/%d'%(len(stable)-len(missing),len(stable)), missing[:5])
PY
rm -f /tmp/seed_baseline.$$.json
echo "== (c1) demo WITH the change (must fail)"
( eval "$DEMO" ) > /tmp/seed_demo1.$$.log 2>&1; rc1=$?; tail -5 /tmp/seed_demo1.$$.log; echo "rc=$rc1"
echo "== (c2) demo WITHOUT the change (must pass)"
git apply -R "$PATCH" || { echo "cannot revert patch"; exit 1; }
( eval "$DEMO" ) > /tmp/seed_demo2.$$.log 2>&1; rc2=$?; tail -3 /tmp/seed_demo2.$$.log; echo "rc=$rc2"
git apply "$PATCH"
rm -f /tmp/seed_demo1.$$.log /tmp/seed_demo2.$$.log
if [ $rc1 -ne 0 ] && [ $rc2 -eq 0 ]; then echo "CONFIRMED"; else echo "NOT-CONFIRMED"; fi
