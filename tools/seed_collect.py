#!/usr/bin/env python3
"""Collect the confirmed seeded changes of round 1 from their scratch worktrees into /verif/seeded/<id>/."""
import json, os, shutil, subprocess, sys
ROUND = sys.argv[1] if len(sys.argv) > 1 else "1"
SRC = sys.argv[2] if len(sys.argv) > 2 else "/tmp/seed"
table = json.load(open('/verif/seeded/round%s_table.json' % ROUND))
for e in table:
    pid = e['property']; name = e.get('dir', pid)
    wt = os.path.join(SRC, e.get('worktree', pid)); d = os.path.join('/verif/seeded', name)
    os.makedirs(d, exist_ok=True)
    shutil.copy(os.path.join(wt, 'SEED/patch.diff'), os.path.join(d, 'patch.diff'))
    if os.path.isdir(os.path.join(d, 'demo')): shutil.rmtree(os.path.join(d, 'demo'))
    shutil.copytree(os.path.join(wt, 'SEED/demo'), os.path.join(d, 'demo'))
    if os.path.exists(os.path.join(wt, 'SEED/NOTES.md')):
        shutil.copy(os.path.join(wt, 'SEED/NOTES.md'), os.path.join(d, 'NOTES.md'))
    files = [l[6:].strip() for l in open(os.path.join(d, 'patch.diff')) if l.startswith('+++ b/')]
    meta = {
        'property': pid, 'round': int(ROUND), 'change': e['change'], 'files_touched': files,
        'needs_to_manifest': e['needs'],
        'author': 'fresh sub-agent given only the property text and its own scratch worktree of /repo',
        'confirmed_by_me': {
            'where': 'the scratch worktree (outside /repo and /verif), tools/seed_confirm.sh',
            'build': 'go build ./... OK',
            'baseline': 'the pinned 221-test suite (command of /root/.vp/BASELINE.json) with the change applied: 221/221 stable tests pass',
            'demonstration': e['demo_cmd'] + ' : fails with the change, passes with patch.diff reverted',
        },
        'evaluation': {
            'how': 'git -C /repo apply patch.diff; ./check <id> quick (evidence and replays redirected to /tmp); git -C /repo checkout -- .  (tools/seed_eval.sh)',
            'checks_as_they_were_when_the_change_arrived': e['as_found'],
            'checks_now': e['now'],
            'signatures': e['signatures'],
            'strengthening': e.get('strengthening', 'none needed'),
        },
    }
    json.dump(meta, open(os.path.join(d, 'meta.json'), 'w'), indent=1)
    print('collected', name)
