#!/bin/bash
# usage: tools/seed_eval.sh <patch.diff> <tier> <check id>...
# Applies a seeded change to /repo, runs the given checks, prints their verdicts, and ALWAYS reverts /repo.
set -u
PATCH="$1"; TIER="$2"; shift 2
cd "${VERIF_HOME:-/verif}"
if ! git -C /repo diff --quiet; then echo "/repo is not clean"; exit 2; fi
git -C /repo apply "$PATCH" || { echo "patch does not apply"; exit 2; }
trap 'git -C /repo checkout -- . ; git -C /repo clean -fdq -- pkg internal cmd >/dev/null 2>&1' EXIT
for id in "$@"; do
  mkdir -p /tmp/seed_ev; cp evidence/$id.json /tmp/seed_ev/$id.json 2>/dev/null
  s=$(date +%s); out=$(VERIF_EVIDENCE=/tmp/seed_ev/$id.seeded.json VERIF_REPLAY_DIR=/tmp/seed_ev/replays ./check $id $TIER 2>&1); rc=$?
  echo "$id $TIER rc=$rc $(( $(date +%s) - s ))s :: $(echo "$out" | grep -c '^VIOLATION') violations"
  echo "$out" | grep -E '^  signature' | head -8
done
