#!/bin/bash
# Runs every registered check at the given tier and prints one summary line per check.
TIER="${1:-quick}"
cd "$(dirname "$0")/.."
for id in $(python3 -c "import json;print(' '.join(c['property_id'] for c in json.load(open('MANIFEST.json'))['checks']))"); do
  s=$(date +%s)
  out=$(./check $id $TIER 2>&1); rc=$?
  e=$(( $(date +%s) - s ))
  echo "$id rc=$rc ${e}s $(echo "$out" | grep -c '^KNOWN-FINDING') known $(echo "$out" | grep -c '^VIOLATION') violations | $(echo "$out" | tail -1 | cut -c1-160)"
done
