#!/bin/bash
# For every repaired defect: re-introduce it (reverse-apply its fix commit on /repo's working tree), run the check
# of its property (quick), expect a VIOLATION, and restore /repo. Prints one line per fix.
cd /verif
if ! git -C /repo diff --quiet; then echo "/repo is not clean"; exit 2; fi
python3 - <<'PY' > /tmp/revert_list.txt
import json,re
k=json.load(open('/verif/known_findings.json'))
for e in k['fixed']:
    m=re.match(r'fixed: property=(C\d+) ([0-9a-f]{7}) (.*)', e)
    if m: print(m.group(1), m.group(2), m.group(3)[:90].replace('\n',' '))
PY
while read -r prop commit what; do
  git -C /repo show "$commit" > /tmp/revert.$$.diff
  if ! git -C /repo apply -R --check /tmp/revert.$$.diff 2>/dev/null; then echo "$prop $commit SKIP (reverse patch does not apply on top of later fixes) :: $what"; continue; fi
  git -C /repo apply -R /tmp/revert.$$.diff
  s=$(date +%s)
  out=$(VERIF_EVIDENCE=/tmp/seed_ev/revert.$prop.json VERIF_REPLAY_DIR=/tmp/seed_ev/replays VERIF_TIMEOUT=900 ./check $prop quick 2>&1); rc=$?
  git -C /repo checkout -- .
  n=$(echo "$out" | grep -c '^VIOLATION')
  verdict=MISSED; [ $rc -eq 1 ] && [ $n -gt 0 ] && verdict=DETECTED; [ $rc -eq 2 ] && verdict="CHECK-ERROR"
  echo "$prop $commit $verdict ($n violations, $(( $(date +%s) - s ))s) :: $what"
done < /tmp/revert_list.txt
rm -f /tmp/revert.$$.diff
