#!/usr/bin/env python3
"""Regenerates /verif/MANIFEST.json from the table below + properties.jsonl (claimed vs not_applicable)."""
import json, os, subprocess
V = os.path.dirname(os.path.dirname(os.path.abspath(__file__)))
props = [json.loads(l) for l in open(os.path.join(V, 'properties.jsonl'))]

# id -> (level, engine, technique, level text, level note, design_ref)
CHECKS = {
 'C15': ('model_checking', 'E1-sched', 'preemption-bounded stateless DFS over interleavings of 2..3 concurrent real operations at store-call granularity (blob + metadata + vmetadata gated) in a synctest bubble, differential oracle against solo runs; separate free-running -race companion pass (sampling)',
         'Six (thorough eight) closed scenarios mixing upload / overlapping upload / download / label set / split upload / diamond commit with internal concurrency 2; every interleaving with <=2 preemptions for the overlapping uploads and <=1 for the others (thorough 3) is executed and every operation result, the blob store and the previously committed bundle are compared with the solo runs. The data-race clause is only sampled: the same bodies run free under the race detector at GOMAXPROCS 1/4/16 and the result is reported separately as race_pass.',
         'The controlled scheduler cannot observe data races (its hand-offs are happens-before edges), and interleavings finer than a store call inside one process are not enumerated; the race pass is sampling from another family, kept as a companion and never counted as exhaustive.',
         'DESIGN.md §3 C15, §4'),
 'C18': ('model_checking', 'E2-seq', 'explicit-state BFS over operation histories of the real mutable file system (fresh instance + replay per state, exact de-duplication on model + implementation dump incl. inode allocator), POSIX tree reference model, worker subprocess with fatal-error capture',
         'Every history up to depth 4 (thorough 6) over create / mkdir / write / truncate / rename (all directory x name pairs) / unlink / rmdir / lookup / forget with kernel-protocol lookup counts, names {a,b}: each transition is compared with the model (result and errno), and in each distinct state getattr, ReadDir (resume protocol, 3 buffer sizes), ReadFile, inode uniqueness and a Commit + download are checked.',
         'Driven through fuseutil.FileSystem (no kernel); staging directory on tmpfs; committed entry names are compared after stripping the leading slash the mutable mount gives them; ENOSYS counts as declined when the state is unchanged.',
         'DESIGN.md §3 C18'),
 'C17': ('exploration', 'E2-seq', 'exhaustive observation battery over all small trees through the real read-only file system operation interface (no kernel), tree model derived from the bundle entries',
         'All subsets of <=4 (quick 3) of 6 nested paths x rotated sizes {0,1,L+1,3L} x {streamed prefetch 0/1, pre-downloaded}: every lookup (each directory x each child and absent names), every getattr, opendir, ReadDir from every offset and with the kernel resume protocol at every buffer size, ReadFile at every offset x 4 lengths.',
         'Driven through fuseutil.FileSystem via a verif-tagged accessor, not through a kernel mount; L=64.',
         'DESIGN.md §3 C17'),
 'C13': ('fault_enumeration', 'E1-sched', 'deviation-bounded stateless DFS over crash points, transient-fault placements and uploader clock ticks on every store call of the real purge index build / resume / delete-unused, in a synctest bubble, end-to-end download oracle',
         'Every store call of the index build is a fault point (reads: transient; writes: transient before / after / after-reading-the-body, crash before / after) and a 5-minute tick may fire the chunk uploader at any step; a crashed build is resumed; 4 kinds of upload between index and delete; every store call of delete-unused is a transient-fault point; all placements with <=1 (thorough 2) deviations are executed and, when the commands report success, every bundle is downloaded and compared.',
         'Two fixed histories (with and without content re-uploaded after its bundle was deleted), chunk size 2, list/scan parallelism 1 (canonical intra-process order); local pebble KV is real.',
         'DESIGN.md §3 C13'),
 'C14': ('model_checking', 'E2-seq + E1-sched', 'exhaustive histories (depth<=3) x every index chunk size through the real index build and delete-unused with a set model; stateless DFS over all interleavings of PurgeLock contenders',
         'All histories of <=3 (quick 2) steps over uploads of overlapping contents to 2 repos + an extra context sharing the blob store, bundle deletion and squash, x every chunk size from 1 to #keys+1: index content = exactly the referenced roots and leaves, each once, one header time; blob store after delete-unused = referenced + newer than index. All interleavings of 2..3 lock contenders with force / unlock.',
         'No faults (C13 covers them); contents of 1-2 leaves.',
         'DESIGN.md §3 C14'),
 'C10': ('model_checking', 'E2-seq', 'exhaustive product of repository histories (bundles x labels x interrupted-upload placement) x squash options through the real RepoSquash in a fake-clock bubble, specification oracle',
         'Every history of 0..4 (quick 3) committed bundles x every assignment of {none, tag, semver tag, both} per bundle x an interrupted upload with 1 or 2 index files at every position x retain-N 1..3 (quick 2) x each retain-tags option: kept set, removed metadata, labels and full downloads of kept bundles are compared with the specification.',
         'Interrupted uploads are injected as the exact keys a crashed upload leaves (crash points themselves are enumerated by C06); 40-bundle shapes are not run.',
         'DESIGN.md §3 C10'),
 'C08': ('model_checking', 'E2-seq', 'explicit-state BFS over label set/delete histories on the real code (fresh cloned stores per state) to the fixed point, map reference model, journal monitor; exhaustive short-name acceptance',
         'All 729 label maps over 2 repos (prefix-related names) x 3 labels x {absent,B1,B2} are reached and every one of the 13122 transitions is executed; after each step every get and every listing (3 prefixes x 4 page sizes) is compared with the model and the write journal must show exactly one key written; every name of length <=2 over a 9-character hostile alphabet is tried for acceptance.',
         'Two bundles per repo; label names of the BFS are fixed (x, x-y, v1.0.0).',
         'DESIGN.md §3 C08'),
 'C09': ('model_checking', 'E1-sched + E2-seq', 'stateless DFS over all interleavings of concurrent CreateRepo; enumerated multi-repo histories x every delete/rename/delete-files operation with store-diff and observational-equivalence oracles',
         '(a) every interleaving of 2..4 concurrent creators (incl. a prefix-related name); (b) 25 histories over repos {a,ab,b} with shared contents and labels (one with a 1001-file bundle) x DeleteRepo / RenameRepo (fresh and existing target) / DeleteEntriesFromRepo for every subset of {p,q,absent}: changed keys confined to the repository, other repositories observably identical (listings, labels, full downloads).',
         'CreateRepo is a single store call, so (a) is small by nature; histories have <=2 bundles per repo.',
         'DESIGN.md §3 C09'),
 'C07': ('model_checking', 'E2-seq', 'explicit enumeration of store histories x every page size x list concurrency through the real list functions, set model + cross-page-size differential + documented-order oracle',
         'For every enumerated history (repo subsets with prefix-related names; bundles with an interrupted upload at every position; label sets x prefix filters; diamonds x splits x index files x generations x states x user-supplied IDs) every list function and Apply variant is run with EVERY page size from 1 to the number of keys under the scanned prefix + 1 (so every page boundary is hit) and 1024, at concurrency 1/2/32.',
         'Object counts are small (<=5 bundles, <=3 diamonds x 3 splits); extra index files are injected as keys; fake clock and seeded KSUIDs make key order deterministic.',
         'DESIGN.md §3 C07'),
 'C04': ('exploration', 'E2-seq', 'bounded-exhaustive product over small trees / key lists / configurations through the real upload and download code, reference-key and byte-for-byte oracles',
         'All subsets of <=4 (quick 3) paths from an 8-path universe (nested, spaces, unicode, dots, generated-path decoys) x rotated size/content assignments x leaf sizes x concurrency x entries-per-index-file; every subset predicate and every single-file download per bundle; all key lists of length <=3 over {a,b,missing} x skip-missing; index-file boundary counts via the public API.',
         'Sizes/contents are assigned by rotation (every file sees every variant) rather than a full per-file product; blob, metadata stores are the reference store; localfs on a rooted MemMapFs.',
         'DESIGN.md §3 C04'),
 'C05': ('exploration', 'E2-seq', 'exhaustive enumeration of all ordered pairs of trees through the real Diff and Update, map-model and fresh-download differential oracles',
         'All 729 ordered pairs of the 27 trees over {p,q,d/r} x {absent,c1,c2}: diff compared with the set computed from the maps (archive-archive and local-archive), Update compared byte-for-byte (data and .datamon metadata) with a fresh download of the target, on a map store and on localfs.',
         'Entries per index file = public default; 3 paths, 2 contents.',
         'DESIGN.md §3 C05'),
 'C16': ('model_checking', 'E2-seq + E1-sched', 'explicit enumeration of all store states over a 7-key universe with full observer battery and all single-op transitions against a map model (OsFs + rooted MemMapFs); stateless DFS over all interleavings of concurrent exclusive Puts at afero-call granularity',
         'All 3^7 (quick 3^5) states x every Get/Has/GetAttr/Keys/KeysPrefix (7 prefixes x 2 delimiters x every page size) and every Put/Delete/abandoned-listing transition on both backends; all interleavings of 2..3 exclusive writers (WriterTo and piped sources, retry on/off).',
         'Key universe avoids file/directory clashes; afero MemMapFs is rooted with BasePathFs like the shipped configuration; real kernel file-system races below afero are out of scope.',
         'DESIGN.md §3 C16'),
 'C20': ('exploration', 'E2-seq', 'bounded-exhaustive enumeration of names / ids / indices / descriptor field values through the real model package with inverse-function and injectivity oracles',
         'Complete product over every string of length <=3 (quick 2) on an 11-character alphabet (letters, digit, hyphens, connector punctuation, unicode, hostile separators), 3 KSUIDs and 11 boundary indices for every path builder and parser, all <=3-component paths for generated-path detection, and the product of representative field values for the 7 descriptor types.',
         'Names longer than 3 characters are not enumerated; the path code only splits on / and compares fixed file names.',
         'DESIGN.md §3 C20'),
 'C21': ('exploration', 'E2-seq', 'exhaustive enumeration over the abstraction that decides separator choice (which characters >= 0 occur in values) x parameter shapes, reference decoder oracle',
         'Every pair of target separators (g1,g2) in the printable range plus one non-ASCII character, with the driving value placed in every field, x sleep flag x 0..2 bundles/databases x optional fields; both FUSE and PG encoders; decoded with a reference implementation of the documented format under the shipped shell decoder constraints.',
         'The reference decoder is the trusted statement of the format; the zsh script itself is not executed.',
         'DESIGN.md §3 C21'),
 'C19': ('model_checking', 'E2-seq + E1-sched', 'exhaustive Add histories (depth<=3) x clock ticks and stateless DFS over all interleavings of concurrent appenders (Touch/GetAttr/Put) with tick placements, real wal.WAL in a synctest bubble, listing battery against a sorted-map model',
         'All sequential histories up to 3 appends over 5 payload classes with a second-boundary choice between steps, and all interleavings of 2 (thorough 3) appenders at store-call granularity with clock ticks; after each, every listing (from issued and synthetic tokens, max 1/2/3/1000) is compared with the model.',
         'Store listing honours a start key (reference store semantics); fake clock; KSUID randomness seeded.',
         'DESIGN.md §3 C19'),
 'C06': ('model_checking', 'E1-sched', 'crash-point enumeration (before/after every store write) with observer battery + retry, and preemption-bounded DFS of a concurrent reader battery against the in-flight operation, on the real code in a synctest bubble',
         'Every store write (blob, metadata, vmetadata) of upload / empty upload / diamond commit / label move / new label is a crash point in both variants; after each crash the complete observer battery (listing at 4 page sizes, latest, exists, full download of every visible bundle, labels) runs, the operation is retried and the battery runs again; a concurrent reader runs the same battery under all interleavings with <=2 (thorough 3) preemptions; a journal monitor checks that nothing under a visible bundle is ever written again.',
         'History fixed to 2 bundles + 1 label (+1 diamond with 2 splits); one crash per execution; reader interleavings at metadata-call granularity.',
         'DESIGN.md §3 C06'),
 'C12': ('model_checking', 'E1-sched', 'preemption-bounded stateless DFS (CHESS-style) over interleavings of the real split add / commit / cancel call sequences at store-call granularity + crash-point enumeration with retry, in a synctest bubble',
         'The implementation is the protocol model: 7 closed scenarios (commit||commit, commit||cancel, split add||commit, run||rerun of one split, crash+rerun, commit crash+retry, cancel crash+retry); every interleaving with <=2 (thorough 3) preemptions and every crash point (before/after each store write) is executed; invariants I1..I5 and late-actor refusal are evaluated on every end state.',
         'Blob store ungated (content-addressed, idempotent, never read by protocol decisions); 2 actors per scenario; goroutine interleavings finer than a store call inside one process are not enumerated (canonical order).',
         'DESIGN.md §3 C12'),
 'C11': ('model_checking', 'E1-sched', 'stateless DFS over all arrival permutations of split index-file reads of the real Diamond.Commit in a synctest bubble, for every content assignment x mode; specification oracle + differential across orders',
         'Every assignment of {absent,h1,h2(,h3)} to (split,path) for 1..3 splits x 2 paths (4 splits x 1 path) x 4 modes x both ID orders; for each, every permutation of index-file arrivals is executed on the real commit code and compared with the merge specification and with each other.',
         'One index file per split (splits of <1000 files); upload times strictly increasing by one fake second; known findings listed in known_findings.json are reported, not failed.',
         'DESIGN.md §3 C11'),
 'C02': ('model_checking', 'E2-seq + E1-sched', 'exhaustive product + all Put histories (depth<=3) on the real cafs with an independent Python BLAKE2b tree oracle; stateless DFS over all completion orders of parallel leaf flushes and over 2-client interleavings (preemption-bounded)',
         'Keys of every enumerated (content, leaf size) are recomputed by CPython hashlib.blake2b in tree mode (validated on the docs/blake2.md examples); key independence from chunking / flush concurrency / store content / flush completion order is decided by exhaustive enumeration, not sampling.',
         'Content alphabet is structured patterns; flush orders explored for up to 4-5 full leaves; concurrent Puts bounded to 2 (thorough 3) preemptions.',
         'DESIGN.md §3 C02'),
 'C03': ('fault_enumeration', 'E2-seq', 'exhaustive single-blob corruption enumeration x every read style on the real cafs and core.Publish',
         'Every single-object corruption in the stated classes (each bit-flip position, each truncation length, extension, deletion, each replacement blob) of every blob of objects with 1..6 leaves is applied and observed through every read style and a full bundle download.',
         'Single corruption at a time; L=64; sequential streams may hand out bytes of a damaged leaf before failing (the stream as a whole must fail); download destinations are afero MemMapFs-backed localfs and a map store.',
         'DESIGN.md §3 C03'),
 'C01': ('exploration', 'E2-seq', 'bounded-exhaustive product enumeration of (leaf size, length, pattern, source chunking, flush concurrency) x complete read battery on the real cafs, worker subprocesses with hang/fatal detection',
         'Complete finite product at L=64 (every length 0..3L+1, every chunk size 1..2L+1, single write, 32 KiB writes, flush concurrency 1/2/3/16) plus boundary lengths at L=65/100/4096/1MiB/1.5MiB/5MiB; every read style at every offset / buffer size; no sampling.',
         'Contents are three structured patterns, not arbitrary bytes (cafs never branches on byte values). Backing store is the reference in-memory store delivering blobs in several Read calls (both EOF shapes).',
         'DESIGN.md §3 C01'),
 'C22': ('model_checking', 'E2-seq', 'explicit-state BFS over write histories of the real tracker to a fixed point, bitmap reference model',
         'Every reachable tracker state for offsets 0..9 / lengths 0..10 (quick 0..6 / 0..7) is visited (exact de-duplication on the implementation marker dump) and every (offset,len) query in every state is compared with a bitmap model; unbounded history length within that offset domain.',
         'Offsets beyond the small domain are not explored; the tracker logic only compares offsets, so the domain contains every ordering of start/end against existing markers. Trusted: bitmap model, hook accessors (verif tag).',
         'DESIGN.md §3 C22'),
}
PENDING_REASON = 'check not built yet in this session (planned, see DESIGN.md §3); not a claim that the technique cannot apply'

def hook_commits():
    out = subprocess.run(['git', '-C', '/repo', 'log', '--format=%H %s'], capture_output=True, text=True).stdout
    return [l.split()[0] for l in out.splitlines() if 'verif hook' in l]

baseline = json.load(open('/root/.vp/BASELINE.json'))['cmd'] if os.path.exists('/root/.vp/BASELINE.json') else ''
man = {
 'version': 1,
 'setup_cmd': './setup.sh',
 'hooks': {
   'guard': 'verif (Go build tag)',
   'enable': 'go1.26.8 test -c -tags verif (harness module replaces github.com/oneconcern/datamon => /repo)',
   'baseline_off_cmd': baseline,
   'source_commits': hook_commits(),
   'add_only': True,
 },
 'engines': [
   {'name': 'E1-sched', 'path': 'harness/lib/sched.go', 'serves_properties': sorted(k for k, v in CHECKS.items() if 'E1' in v[1]),
    'kind_free_text': 'stateless DFS over controlled executions of the real code in a testing/synctest bubble; every store call is a scheduling / fault / crash point; deviation-bounded'},
   {'name': 'E2-seq', 'path': 'harness/lib/bfs.go', 'serves_properties': sorted(k for k, v in CHECKS.items() if 'E2' in v[1]),
    'kind_free_text': 'bounded-exhaustive enumeration of inputs / explicit-state BFS over operation histories of the real component against a reference model'},
 ],
 'checks': [],
 'not_applicable': [],
 'notes': 'All checks run the real code (no separate abstract model): every explored trace is an implementation trace. See DESIGN.md.',
}
# additions made while closing the gaps shown by the seeded-change campaign (DESIGN.md §7): id -> (technique suffix, text suffix)
EXTRA = {
 'C21': ('', ' Shapes include a bundle without any optional parameter. A third of the driving values is wrapped in multi-byte characters, another third in white space (which is part of the value).'),
 'C05': ('', ' The path universe holds a name sorting before .datamon; for an identical pair the target is a second bundle holding the same tree. For A != B also the history: download X (tree A), delete X, upload B under the preserved ID X, diff and update the old copy. A sync loop: one remote handle retargeted through its BundleID field and one local copy follow a chain through all 27 trees with the empty tree in between. Diff is evaluated with each side given as an archive bundle or as a local copy (four combinations).'),
 'C04': ('', ' The path universe holds a name sorting before .datamon. Explicit key lists also contain a generated path that is present in the source.'),
 'C01': ('', ' Also: a second Put into a store that already holds a damaged copy (emptied; with a CRC-reporting backend also cut short / altered) of each blob of the content is acknowledged only if the content then reads back exactly. Large leaf sizes (one above the 2 MiB default in the quick tier) get a small Read / ReadAt battery.'),
 'C02': ('; single-fault enumeration over every store call of Put', ' Also: Put under every single transient failure (before / after / after the body / hang-then-fail) of each of its store calls: an error, or exactly the fault-free key and blob set.'),
 'C03': ('', ' Also: the random-access reads repeated on ONE file system object (3 rounds x twice, prefetch 0/1): a failed verification must leave nothing cached that a later read returns. Also every read style through a file system object whose cache was warmed by a complete read before the damage.'),
 'C06': ('; single-fault enumeration over every store call of each operation', ' Also: two uploaders of different content with the same preserved bundle ID plus a reader (all interleavings); every operation under every single transient failure at each store call: no partial bundle visible, a reported success means the result is completely there, a retry works. Also histories of 1..3 committed bundles with a run of 1..3 interrupted uploads at every position: listing (full and keys-only), latest, existence, downloads.'),
 'C07': ('; single-fault enumeration over every metadata call of each listing function', ' Also: every listing function (page size 2) under every single transient failure of each metadata call: an error or exactly the existing objects, never a hang. Two user-supplied split IDs are shaped like descriptor file names (split-1, diamond-x). Bundles are also listed in the keys-only mode squash uses.'),
 'C08': ('; single-fault enumeration over the label listings', ' Also: label listings (with and without prefix) under every single transient failure of each metadata call. The BFS alphabet also moves a label through a Label object that fetched the current descriptor first; the labels really in the store are part of the state key. Listing prefixes include . and .. .'),
 'C09': ('; single-fault enumeration over rename / delete-repo / delete-files', ' Also (c): RenameRepo / DeleteRepo / DeleteEntriesFromRepo under every single transient failure of each metadata call: success obliges the full postcondition, a failed rename leaves one complete copy, other repositories untouched. A failed delete-repo / delete-files is run again without fault and must then reach the postcondition. Leftovers are searched in the metadata and in the label store.'),
 'C10': ('; single-fault enumeration over squash', ' Per-bundle labels also cover a plain tag listed before and after the semver tag of the same bundle. Also: squash (retain 1, with/without a newer leftover, with/without retain-tags) under every single transient failure of each metadata call: bundles to keep are never removed and stay downloadable, success means exactly the specified set. Listings of more than one page (page size 2, and page size 1 when there is an interrupted upload, which then fills a page of its own) are part of the product. Plain tags are prefixes of one another (tag, tagx, tagxx). For unlabelled histories each committed bundle in turn is an empty commit, on stores where deleting a missing key fails (GCS) or succeeds (S3, localfs).'),
 'C11': ('; preemption-bounded DFS over two concurrent split uploads', ' Also: two splits with an overlapping path uploading concurrently (blob + vmetadata calls gated, one fake second per call) then a commit: recorded upload times lie between the write of the file\'s root blob and the split\'s completion, and the later upload of the shared path wins. The concurrent splits write one entry per index file (verif hook), so the index packer is inside a store call after every file; nothing a completed split uploaded may be missing from the bundle. Commits of 2..3 completed splits with every listing page size 1..10. The two paths of the merge product are a dotted path and its undotted sibling; every other small-page commit is preceded by a split that completed with no file. A commit refused in forbid mode is followed by a second commit (same object switched to ignore mode / fresh object in each other mode) for all 48 conflicting assignments over 2 splits x 2 paths: equal to a first commit in that mode.'),
 'C12': ('', ' Also: a split run crashing at every store write, then commit / cancel, then a rerun of that split ID: the rerun is refused and writes nothing. Commits of 2..3 completed splits with every listing page size 1..10: no completed split is left out. Every other small-page commit is preceded by a split that completed with no file.'),
 'C13': ('', ' Also: a history with more than 10 index chunks (chunk size 1), whose names are not listed in numeric order on resume; reads may also hang five minutes and then fail (a single deviation that exhausts retry budgets). The second context of the history holds a bundle whose blobs nothing else references.'),
 'C14': ('', ' Also (a\'): index, more uploads, index again with the resume option, 4 x 6 histories x chunk sizes {1,2,3,7} incl. more than 10 chunks: again exactly the referenced keys, delete-unused keeps every referenced blob. Scan parallelism alternates between 2 and 1 (fewer scanner slots than repositories of a context). (c) a fault-free index build with every store call gated and the uploader ticker firing between any two of them.'),
 'C15': ('', ' The concurrent uploaders share content already in the store and content new to the store. Diamonds of the scenarios start with two completed splits. The sampling race pass also runs 8 whole-leaf ReadAt readers over one cafs.Fs with a one-leaf cache.'),
 'C16': ('; stateless DFS over one writer and one reader of the same key', ' Also: deletes of names that are path prefixes of keys; (c) one Put (overwrite shorter / longer, exclusive create) concurrent with one Get+read through one store object, afero open/read/write/close gated, all interleavings, and the lock option in two phases: a read returns the previous or the new object (4 known findings: torn reads). Put sources rotate over io.WriterTo / plain reader / reader delivering its last bytes with EOF. The battery also asks Has of every proper path prefix of the keys.'),
 'C17': ('', ' Streamed mounts are run with hash verification off and on; every tree holds a file whose size is a multiple of the leaf size. One long name is listed between short ones (directory entries of different sizes). Every case runs under a 3-minute watchdog; the check stops after three stuck cases. Plus a 96 KiB leaf size x streamed / pre-downloaded x hash verification on / off, reads at copy-buffer and leaf boundaries.'),
 'C18': ('; BFS levels run on all cores, guided deepening', ' States first reached at the depth bound whose history released an inode (unlinked and forgotten) are explored 2 (thorough 1) levels further; the staging files with their content are part of the state key. getattr compares type, size and link count with the tree model. The inode allocator is also explored on its own (verif hook): BFS over alloc / free histories with at most 4 live inodes to depth 12 (thorough 16).'),
 'C19': ('', ' Gaps of 0 / 1 s / 25 min between appends; synthetic start tokens at the edges of the 20-minute window; every entry whose append started within 20 minutes before the start token\'s time must be listed. Half-second gaps starting 600 ms into a second cross second boundaries with less than a second elapsed. Plus three appends with every store call of Add a fault point (transient error before / after / after reading the body): an acknowledged entry is listed with its payload unchanged.'),
 'C20': ('', ' The canceled diamond state must share the final descriptor path. Consumable-store paths also round-trip for bundle IDs ending in each of the 62 KSUID characters.'),
 'C22': ('', ' Also a second fixed-point search over writes between 12 boundaries straddling the byte boundaries of the 8-byte marker keys (256, 512, 65536, 2^32, 2^40). Two boundaries lie beyond the exact range of float64 (2^53+3, 2^62+1).'),
}

for p in props:
    pid = p['id']
    if pid in CHECKS:
        level, engine, tech, text, note, ref = CHECKS[pid]
        if pid in EXTRA:
            tech, text = tech + EXTRA[pid][0], text + EXTRA[pid][1]
        man['checks'].append({
          'property_id': pid,
          'quick_cmd': f'./check {pid} quick',
          'thorough_cmd': f'./check {pid} thorough',
          'evidence_file': f'/verif/evidence/{pid}.json',
          'replay_cmd_template': f'./check {pid} quick --replay {{path}}',
          'engine': engine,
          'level_claimed': {'category': level, 'text': text, 'design_ref': ref},
          'level_note': note,
          'technique': tech,
        })
    else:
        man['not_applicable'].append({'property_id': pid, 'reason': PENDING_REASON})
json.dump(man, open(os.path.join(V, 'MANIFEST.json'), 'w'), indent=1)
print('checks:', len(man['checks']), 'not_applicable:', len(man['not_applicable']))
