#!/usr/bin/env python3
"""Regenerates seeded/README.md from seeded/round{1,2,3}_table.json."""
import json
R=[json.load(open('/verif/seeded/round%d_table.json'%i)) for i in (1,2,3,4)]
def found(e): return 'DETECTED' in e['as_found'].split(':',1)[1][:14]
def row(e,d):
    st=e.get('strengthening','none needed')
    now='DETECTED' if 'not reported' not in e['now'] else e['now'].replace('quick: ','')
    return '| %s | `%s/` | %s | %s | %s | %s |'%(e['property'], d, e['change'].split(':')[0], 'DETECTED' if found(e) else 'missed', now, '—' if st=='none needed' else st.replace('||','‖'))
L=['# Seeded property-breaking changes\n']
L.append('Four rounds (22 + 22 + 22 + 16 = 82 changes, one per property and round; round 4 covered C04..C19), written by **fresh sub-agents that were given only the text of one property and their own scratch git worktree of /repo** (nothing from /verif). Each was asked for one small, realistic change that compiles, passes the existing tests and needs something specific to manifest, together with a demonstration that fails with the change and passes without it. Round 2 agents were also told where the round-1 change of their property was located and asked for a different function and mechanism; round 3 agents were told both earlier locations and asked to avoid swallowed store errors (well represented by then); round 4 agents were told all three, asked to avoid the hand-shake races as well and to prefer interleavings of separate actors, crash + retry, re-used identifiers and stale state.\n')
L.append('Every change kept here was **confirmed by me in its scratch worktree** with `tools/seed_confirm.sh`: `go build ./...`, the pinned 221-test baseline suite with the change applied (221/221), the demonstration failing with the change and passing with `patch.diff` reverted. All 82 were confirmed (one round-3 agent first re-invented an earlier change and was asked for another). Each was then **evaluated** with `tools/seed_eval.sh`: `git -C /repo apply patch.diff`, `./check <id> quick` (evidence and replays redirected to /tmp; run from a git-worktree snapshot of /verif so that my own edits could not interfere), `git -C /repo checkout -- .`. No change was ever committed to /repo. The scratch worktrees were removed afterwards.\n')
L.append('Per directory (`<id>/` round 1, `<id>.2/`, `<id>.3/`, `<id>.4/`): `patch.diff`, `demo/` (the agent\'s demonstration + command), `NOTES.md` (the agent\'s explanation), `meta.json` (property, what it needs to manifest, what I ran to confirm it, the verdict of the checks as they were when the change arrived and as they are now, violation signatures, what was strengthened).\n')
L.append('## Result\n')
L.append('| round | reported by the quick tier as it was when the round started | reported now |\n|---|---|---|')
names=['1','2 (different function and mechanism than round 1; faults and interleavings preferred)','3 (different from both; no swallowed store errors)','4 (16 properties; different from all three; no hand-shake races)']
for i,r in enumerate(R):
    n=len(r); L.append('| %s | %d / %d | %s |'%(names[i], sum(found(e) for e in r), n, ['22 / 22','22 / 22','22 / 22 (C15.3 by the check of C11, see below)','16 / 16 (C08.4 by the check of C09: the same change as C09.4)'][i]))
L.append('\nA miss was never answered by special-casing the change: each strengthening adds a dimension to the enumerated space, a scenario, or a general oracle (last column). Several of them found further genuine defects in the unchanged tree (listing fault sweep: 2; rename / delete / squash fault sweeps: 3; a path sorting before `.datamon`: 1; link counts: 1 - all repaired, DESIGN.md §5.2).\n')
L.append('Six changes (C04.2, C05.2, C15.2, C04.3, C11.3, C15.3) are races between goroutines of one process (a semaphore slot released before the result is sent, a `select` between "result" and "done"). The explorer does not enumerate that level (DESIGN.md §4). It drives the process into the racy state by parking the busy party inside a store call, after which the runtime picks; all six were reported in the final evaluation, C15.3 by C11\'s check (its own property\'s check reported it in the as-found run and not in the final one). That is sampling, not enumeration, and is not claimed as exhaustive.\n')
for i,r in enumerate(R):
    suf=['','.2','.3','.4'][i]
    L.append('\n## Round %d\n\n| property | directory | where | quick tier as found | now | strengthening |\n|---|---|---|---|---|---|'%(i+1))
    for e in r: L.append(row(e,e['property']+suf))
L.append('\n## Reverting the repairs\n\n`revert_matrix.txt` (from `tools/revert_matrix.sh`, run when 41 repairs existed): for each `fix:` commit of /repo the reverse patch is applied to the working tree, the quick check of its property is run and /repo is restored. All 39 reverts that still applied were reported (two reverse patches no longer apply on top of later fixes of the same lines). Two of them (`ae55e75`, `0e33f65`) were first reached only by the thorough tier; the fail-slow fault kind and guided deepening brought them into the quick tier. The seven later repairs were each found by the quick tier itself, and their reverts were run through the final checks as well (last block of the file): all reported.\n')
open('/verif/seeded/README.md','w').write('\n'.join(L)+'\n')
print([sum(found(e) for e in r) for r in R])
