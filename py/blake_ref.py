#!/usr/bin/env python3
"""Independent oracle for C02: recomputes datamon cafs keys with CPython's hashlib.blake2b in tree mode.

Convention (datamon's historical on-disk layout, as stated by the property):
  leaf i (0-based), exactly leaf_size bytes  -> node_depth 0, node_offset i+1, not last
  trailing partial leaf i (< leaf_size)      -> node_depth 0, node_offset i,   last_node
  root over the concatenated leaf digests    -> node_depth 1, node_offset 0,   last_node
  all with fanout=0, depth=2, leaf_size=L, inner_size=64, digest_size=64.
The BLAKE2 primitive and its parameter block are first validated against the two worked examples of docs/blake2.md
(which use the s3git convention: leaf i -> node_offset i, last leaf flagged).
Input: JSONL records {"pattern","n","L","key","leaves":[hex...]}; content is regenerated here from the pattern formula.
Output: one JSON line {"checked":N,"mismatches":[...]}; exit 1 on any mismatch or failed self-check.
"""
import sys, json, hashlib

def leaf(data, L, off, last):
    return hashlib.blake2b(data, digest_size=64, fanout=0, depth=2, leaf_size=L, node_offset=off, node_depth=0, inner_size=64, last_node=last).digest()

def root(digests, L):
    return hashlib.blake2b(b''.join(digests), digest_size=64, fanout=0, depth=2, leaf_size=L, node_offset=0, node_depth=1, inner_size=64, last_node=True).digest()

def datamon_key(content, L):
    leaves = []
    n = len(content)
    i = 0
    while i * L < n:
        chunk = content[i*L:(i+1)*L]
        if len(chunk) == L:
            leaves.append(leaf(chunk, L, i+1, False))
        else:
            leaves.append(leaf(chunk, L, i, True))
        i += 1
    return root(leaves, L), leaves

def s3git_key(content, L):
    leaves = []
    n = len(content)
    cnt = max(1, (n + L - 1)//L)
    for i in range(cnt):
        leaves.append(leaf(content[i*L:(i+1)*L], L, i, i == cnt-1))
    return root(leaves, L), leaves

def selfcheck():
    L = 5*1024*1024
    r, ls = s3git_key(b'hello s3git\n', L)
    assert ls[0].hex() == '46ddd7b91748c4d253e328a9644d78b3e3a298ebbbab462891502f05e956ef7ec03c8e0978e5160a858cc50ca6b37176248b602d50d0c609abe75b462b6dddcc', 'blake2.md example 1 leaf'
    assert r.hex() == '18e622875a89cede0d7019b2c8afecf8928c21eac18ec51e38a8e6b829b82c3ef306dec34227929fa77b1c7c329b3d4e50ed9e72dc4dc885be0932d3f28d7053', 'blake2.md example 1 root'
    r, ls = s3git_key(bytes(8*1024*1024), L)
    assert ls[0].hex() == '3021a7f3d7ed2ac353fa380ebfacb3e8e2e8e4ebfb1b28d24a56d3bd79d715470edc3ca868576a4d17dae886b61ba72bcd3780b67a3d1be1c9cb1b25d7cd1a61'
    assert ls[1].hex() == '6cac33b4fa6803ae784db76e4a8b43c074a7fcdf2dc4cce558cc01c5ff6f909a6fb3fa5e56b7205aa4b4c74a70545c20fce09f2b85edefbc43e39507f21ea356'
    assert r.hex() == '2039f91853e3cf31ae3d587609d0459331b35863a743cb3ef9c4e2baf26bb317e2e7f06b594285c97e58c47750b29efebca93e63dd24e1424737e6664ade7414'

def pattern(kind, n, L):
    if kind == 'pos':
        return bytes(((i*7 + i//251 + 1) % 251) for i in range(n))
    if kind == 'zero':
        return bytes(n)
    if kind == 'rep':
        return bytes((((i % L)*3 + 5) % 256) if i < 2*L else ((i*11 + 3) % 253) for i in range(n))
    if kind.startswith('hex:'):
        return bytes.fromhex(kind[4:])
    raise ValueError(kind)

def main():
    selfcheck()
    checked, bad = 0, []
    for line in open(sys.argv[1]):
        line = line.strip()
        if not line:
            continue
        rec = json.loads(line)
        content = pattern(rec['pattern'], rec['n'], rec['L'])
        assert len(content) == rec['n']
        r, ls = datamon_key(content, rec['L'])
        checked += 1
        if r.hex() != rec['key'] or [l.hex() for l in ls] != (rec.get('leaves') or []):
            bad.append({'pattern': rec['pattern'][:40], 'n': rec['n'], 'L': rec['L'], 'got': rec['key'], 'want': r.hex(),
                        'leaves_match': [l.hex() for l in ls] == (rec.get('leaves') or [])})
    print(json.dumps({'checked': checked, 'mismatches': bad[:50], 'n_mismatches': len(bad)}))
    sys.exit(1 if bad else 0)

if __name__ == '__main__':
    main()
