#!/bin/bash
# Offline setup: warm the Go build cache and build the harness test binary once.
set -e
cd "$(dirname "$0")"
export GOFLAGS=-mod=mod GOPROXY=off GOSUMDB=off GOTOOLCHAIN=local CGO_ENABLED=0
mkdir -p .build evidence replays
cd harness
cp /repo/go.sum go.sum
go1.26.8 test -c -tags verif -vet=off -o ../.build/props.test.setup ./props
rm -f ../.build/props.test.setup
echo setup ok
