package props

import (
	"bytes"
	"context"
	"fmt"
	"github.com/segmentio/ksuid"
	"sort"
	"strings"
	"testing"
	"time"

	context2 "github.com/oneconcern/datamon/pkg/context"
	"github.com/oneconcern/datamon/pkg/core"
	"github.com/oneconcern/datamon/pkg/model"
	"verif/harness/lib"
)

// C06 — bundles become visible atomically and are never altered afterwards.
// E1: every store write of an upload / diamond commit / label set is a crash point (before / after); after each crash
// the observer battery runs as a new client, then the operation is retried and the battery runs again. A second
// family of scenarios runs the battery as a concurrent reader against the in-flight operation (preemption-bounded).

const c06L = 1 << 20

func setLabel(stores context2.Stores, repo, name, bundleID string) error {
	b := core.NewBundle(core.Repo(repo), core.ContextStores(stores), core.BundleID(bundleID), core.Logger(nopLogger))
	l := core.NewLabel(core.LabelDescriptor(model.NewLabelDescriptor(model.LabelName(name), model.LabelContributor(model.Contributor{Name: "v", Email: "v@x.io"}))))
	return l.UploadDescriptor(context.Background(), b)
}

func getLabel(stores context2.Stores, repo, name string) (string, error) {
	b := core.NewBundle(core.Repo(repo), core.ContextStores(stores), core.Logger(nopLogger))
	l := core.NewLabel(core.LabelDescriptor(model.NewLabelDescriptor(model.LabelName(name))))
	if err := l.DownloadDescriptor(context.Background(), b, true); err != nil {
		return "", err
	}
	return l.Descriptor.BundleID, nil
}

type c06state struct {
	w        *World
	b1, b2   string                       // committed before the operation under test
	files    map[string]map[string][]byte // bundle id -> expected files (filled as bundles become known)
	diamond  string
	attempts []string
}

var (
	c06files1 = map[string][]byte{"a": []byte("one"), "d/b": []byte("two-two")}
	c06files2 = map[string][]byte{"a": []byte("one"), "c": []byte("three33")}
	c06files3 = map[string][]byte{"x": []byte("new-x"), "d/b": []byte("two-two")}
)

func c06setup(x *lib.Exec, op string) *c06state {
	w := NewWorld()
	st := w.Stores()
	must := func(err error) {
		if err != nil {
			panic(err)
		}
	}
	must(mkRepo(st, "r"))
	must(mkRepo(st, "other"))
	s := &c06state{w: w, files: map[string]map[string][]byte{}}
	b1, err := uploadFiles(st, "r", c06files1, c06L, 1)
	must(err)
	s.b1 = b1.BundleID
	s.files[s.b1] = c06files1
	time.Sleep(time.Second)
	b2, err := uploadFiles(st, "r", c06files2, c06L, 1)
	must(err)
	s.b2 = b2.BundleID
	s.files[s.b2] = c06files2
	must(setLabel(st, "r", "l1", s.b1))
	if op == "commit" {
		dd, err := core.CreateDiamond("r", st, core.DiamondLogger(nopLogger))
		must(err)
		s.diamond = dd.DiamondID
		time.Sleep(time.Second)
		must(splitAdd(st, "r", dd.DiamondID, "s1", map[string][]byte{"x": c06files3["x"]}))
		time.Sleep(time.Second)
		must(splitAdd(st, "r", dd.DiamondID, "s2", map[string][]byte{"d/b": c06files3["d/b"]}))
	}
	time.Sleep(time.Second)
	x.Data["s"] = s
	return s
}

// c06op runs the operation under test with the given stores; returns the id of the bundle it attempted (if any).
func c06op(s *c06state, stores context2.Stores, op string) (string, error) {
	switch op {
	case "upload":
		b, err := uploadFiles(stores, "r", c06files3, c06L, 1)
		return b.BundleID, err
	case "upload-empty":
		b, err := uploadFiles(stores, "r", map[string][]byte{}, c06L, 1)
		return b.BundleID, err
	case "commit":
		return diamondCommit(stores, "r", s.diamond, model.EnableConflicts)
	case "label-move":
		return "", setLabel(stores, "r", "l1", s.b2)
	case "label-new":
		return "", setLabel(stores, "r", "l2", s.b2)
	}
	panic(op)
}

func c06expectedFiles(op string) map[string][]byte {
	switch op {
	case "upload", "commit":
		return c06files3
	case "upload-empty":
		return map[string][]byte{}
	}
	return nil
}

func crashSite(x *lib.Exec) string {
	for _, s := range x.Steps {
		if strings.HasPrefix(s.Granted, "crash-") {
			g := s.Granted
			kind := strings.Fields(g)[0]
			switch {
			case strings.Contains(g, "/bundle.yaml"):
				return kind + ":bundle.yaml"
			case strings.Contains(g, "/bundle-files-"):
				return kind + ":bundle-index-file"
			case strings.Contains(g, "diamond-done"):
				return kind + ":diamond-done"
			case strings.Contains(g, "label.yaml"):
				return kind + ":label.yaml"
			case strings.Contains(g, "blob."):
				return kind + ":blob"
			default:
				return kind + ":other"
			}
		}
	}
	return "none"
}

// c06battery observes the repository as a fresh client and checks it against the model. label names the moment.
func c06battery(x *lib.Exec, s *c06state, stores context2.Stores, op, when string, tolerateErr bool) string {
	w := s.w
	tag := fmt.Sprintf("op=%s|%s", op, when)
	viol := func(what, detail string) { x.Violate("C06|"+what+"|"+tag, detail) }
	// model: visible = bundles whose descriptor landed
	var visible []string
	for _, k := range w.Meta.RawKeys() {
		if strings.HasPrefix(k, "bundles/r/") && strings.HasSuffix(k, "/bundle.yaml") {
			visible = append(visible, strings.Split(k, "/")[2])
		}
	}
	sort.Strings(visible)
	for _, id := range visible {
		if _, ok := s.files[id]; !ok {
			s.files[id] = c06expectedFiles(op)
		}
	}
	var firstList []string
	for page := 1; page <= 4; page++ {
		bds, err := core.ListBundles("r", stores, core.BatchSize(page), core.ConcurrentList(2))
		if err != nil {
			if tolerateErr {
				return "reader-error"
			}
			viol("list-error", fmt.Sprintf("ListBundles(page=%d): %v", page, err))
			continue
		}
		var ids []string
		for _, bd := range bds {
			ids = append(ids, bd.ID)
		}
		if page == 1 {
			firstList = ids
		}
		if !tolerateErr && strings.Join(ids, ",") != strings.Join(visible, ",") {
			viol("listing-differs-from-committed-set", fmt.Sprintf("ListBundles(page=%d)=%v, bundles with a descriptor=%v", page, ids, visible))
		}
	}
	// every bundle an observer sees downloads completely with the expected content
	check := func(id, how string) {
		want, ok := s.files[id]
		if !ok {
			want = c06expectedFiles(op)
		}
		dest := lib.NewMemStore("dest")
		dest.NoCRC = true
		epf := uint(1) // the history and the uploads under test use 1 entry per index file (hook); commits use the default
		if op == "commit" && id != s.b1 && id != s.b2 {
			epf = 0
		}
		if _, err := downloadBundle(stores, "r", id, dest, epf); err != nil {
			if tolerateErr && (strings.Contains(err.Error(), "injected") || strings.Contains(err.Error(), "crashed")) {
				return
			}
			viol("visible-bundle-not-downloadable|via="+how, fmt.Sprintf("bundle %s seen through %s does not download: %v", id, how, err))
			return
		}
		got := dest.Snapshot()
		for name, data := range want {
			if !bytes.Equal(got[name], data) {
				viol("visible-bundle-wrong-content|via="+how, fmt.Sprintf("bundle %s file %q differs", id, name))
			}
		}
		for name := range got {
			if _, ok := want[name]; !ok && !strings.HasPrefix(name, ".datamon/") {
				viol("visible-bundle-extra-file|via="+how, fmt.Sprintf("bundle %s has unexpected file %q", id, name))
			}
		}
	}
	for _, id := range firstList {
		check(id, "list")
	}
	latest, err := core.GetLatestBundle("r", stores)
	if err != nil {
		if !tolerateErr {
			viol("latest-error", err.Error())
		}
	} else {
		isVisible := false
		for _, id := range visible {
			if id == latest {
				isVisible = true
			}
		}
		if !isVisible {
			if !tolerateErr {
				viol("latest-resolves-to-bundle-without-descriptor", fmt.Sprintf("GetLatestBundle=%s, bundles with a descriptor=%v", latest, visible))
			} else if has, _ := w.Meta.Has(context.Background(), model.GetArchivePathToBundle("r", latest)); !has {
				viol("latest-resolves-to-bundle-without-descriptor", fmt.Sprintf("GetLatestBundle=%s which has no descriptor (concurrent reader)", latest))
			}
		} else {
			if !tolerateErr && latest != visible[len(visible)-1] {
				viol("latest-is-not-the-most-recent", fmt.Sprintf("GetLatestBundle=%s, most recent committed=%s", latest, visible[len(visible)-1]))
			}
			check(latest, "latest")
		}
	}
	// Exists + descriptor of every bundle ever attempted
	for _, id := range append([]string{s.b1, s.b2}, s.attempts...) {
		if id == "" {
			continue
		}
		b := core.NewBundle(core.Repo("r"), core.ContextStores(stores), core.BundleID(id), core.Logger(nopLogger))
		ex, err := b.Exists(context.Background())
		if err != nil {
			continue
		}
		if ex {
			check(id, "exists")
		}
	}
	// previously committed bundles, labels
	l1, err := getLabel(stores, "r", "l1")
	if err != nil {
		if !tolerateErr {
			viol("label-unreadable", "l1: "+err.Error())
		}
	} else if l1 != s.b1 && !(op == "label-move" && l1 == s.b2) {
		viol("label-changed", fmt.Sprintf("l1 resolves to %s (was %s)", l1, s.b1))
	}
	lbls, err := core.ListLabels("r", stores)
	if err != nil {
		if !tolerateErr {
			viol("label-list-error", err.Error())
		}
	} else {
		var names []string
		for _, l := range lbls {
			names = append(names, l.Name+"="+l.BundleID)
			if l.Name == "l2" && (op != "label-new" || l.BundleID != s.b2) {
				viol("unexpected-label", fmt.Sprint(names))
			}
		}
		if len(lbls) < 1 {
			viol("label-lost", fmt.Sprint(names))
		}
	}
	return fmt.Sprintf("visible=%d;l1=%v", len(visible), l1 == s.b1)
}

// journal monitor: once a bundle is visible nothing under bundles/r/<id>/ is written or deleted
func c06immutability(x *lib.Exec, s *c06state, tag string) {
	seen := map[string]bool{}
	for _, je := range s.w.Meta.JournalSince(0) {
		if !strings.HasPrefix(je.Key, "bundles/") {
			continue
		}
		parts := strings.Split(je.Key, "/")
		if len(parts) < 4 {
			continue
		}
		id := parts[1] + "/" + parts[2]
		if seen[id] {
			x.Violate("C06|visible-bundle-metadata-written|"+tag, fmt.Sprintf("%s %s after the bundle's descriptor was written", je.Op, je.Key))
		}
		if je.Op == "put" && je.Existed {
			x.Violate("C06|bundle-metadata-overwritten|"+tag, "put over existing "+je.Key)
		}
		if je.Op == "put" && parts[3] == "bundle.yaml" {
			seen[id] = true
		}
	}
}

var c06allGates = map[string]func(string, string) bool{"meta": allCalls, "vmeta": allCalls, "blob": allCalls}

func c06crashScenario(op string) *lib.Scenario {
	sc := &lib.Scenario{Name: "crash:" + op}
	sc.Setup = func(x *lib.Exec) { c06setup(x, op) }
	sc.Phases = [][]lib.ClientFn{{func(x *lib.Exec, id int) error {
		s := x.Data["s"].(*c06state)
		bid, err := c06op(s, s.w.Gated(x, id, c06allGates), op)
		s.attempts = append(s.attempts, bid)
		return err
	}}}
	sc.Faults = crashOnWrites(0)
	sc.Final = func(x *lib.Exec) {
		s := x.Data["s"].(*c06state)
		if x.Hung {
			x.Violate("C06|hang|op="+op, "operation never returned")
			return
		}
		site := crashSite(x)
		if site == "none" && x.ClientErr[0] != nil {
			x.Violate("C06|operation-failed-without-fault|op="+op, x.ClientErr[0].Error())
		}
		st := s.w.Stores()
		o1 := c06battery(x, s, st, op, "after-crash="+site, false)
		// retry as a new client
		bid, err := c06op(s, st, op)
		s.attempts = append(s.attempts, bid)
		retry := "ok"
		if err != nil {
			retry = "err"
			done := site == "none" || strings.HasPrefix(site, "crash-after:diamond-done")
			if !(op == "commit" && done) {
				x.Violate("C06|retry-fails|op="+op+"|after-crash="+site, "retried operation failed: "+err.Error())
			}
		}
		o2 := c06battery(x, s, st, op, "after-retry|crash="+site, false)
		c06immutability(x, s, "op="+op)
		x.SetOutcome(fmt.Sprintf("crash=%s;%s;retry=%s;%s", site, o1, retry, o2))
	}
	return sc
}

func c06readerScenario(op string) *lib.Scenario {
	sc := &lib.Scenario{Name: "reader||" + op}
	sc.Setup = func(x *lib.Exec) { c06setup(x, op) }
	metaGates := map[string]func(string, string) bool{"meta": allCalls, "vmeta": allCalls}
	sc.Phases = [][]lib.ClientFn{{
		func(x *lib.Exec, id int) error {
			s := x.Data["s"].(*c06state)
			bid, err := c06op(s, s.w.Gated(x, id, metaGates), op)
			s.attempts = append(s.attempts, bid)
			return err
		},
		func(x *lib.Exec, id int) error {
			s := x.Data["s"].(*c06state)
			c06battery(x, s, s.w.Gated(x, id, metaGates), op, "concurrent-reader", true)
			return nil
		},
	}}
	sc.Final = func(x *lib.Exec) {
		s := x.Data["s"].(*c06state)
		if x.Hung {
			x.Violate("C06|hang|reader||op="+op, "never returned")
			return
		}
		if x.ClientErr[0] != nil {
			x.Violate("C06|operation-failed-without-fault|op="+op, x.ClientErr[0].Error())
		}
		o := c06battery(x, s, s.w.Stores(), op, "after-concurrent-reader", false)
		c06immutability(x, s, "op="+op)
		x.SetOutcome(o)
	}
	return sc
}

// c06faultScenario: the operation under a single transient store failure at any of its store calls (the client goes on
// and reports what it reports). Whatever it reports, no partial bundle is visible and earlier objects are intact; if it
// reports success, its result is completely there; a retry works.
func c06faultScenario(op string) *lib.Scenario {
	sc := &lib.Scenario{Name: "fault:" + op}
	sc.Setup = func(x *lib.Exec) { c06setup(x, op) }
	sc.Phases = [][]lib.ClientFn{{func(x *lib.Exec, id int) error {
		s := x.Data["s"].(*c06state)
		bid, err := c06op(s, s.w.Gated(x, id, c06allGates), op)
		s.attempts = append(s.attempts, bid)
		return err
	}}}
	sc.Faults = transientFaults(0)
	sc.Final = func(x *lib.Exec) {
		s := x.Data["s"].(*c06state)
		site := faultClass(x)
		if x.Hung {
			x.Violate("C06|hang|fault|op="+op, "operation never returned under "+site)
			return
		}
		err := x.ClientErr[0]
		if site == "none" && err != nil {
			x.Violate("C06|operation-failed-without-fault|op="+op, err.Error())
		}
		st := s.w.Stores()
		tag := "after-fault"
		if err == nil {
			tag = "after-fault-reported-success"
		}
		o1 := c06battery(x, s, st, op, tag, false)
		if err == nil && site != "none" {
			// the operation said it worked: its result must be there
			switch op {
			case "upload", "upload-empty", "commit":
				bid := s.attempts[len(s.attempts)-1]
				if has, _ := s.w.Meta.Has(context.Background(), model.GetArchivePathToBundle("r", bid)); !has {
					x.Violate("C06|success-reported-but-bundle-not-visible|op="+op, fmt.Sprintf("%s returned nil under %s but bundle %s has no descriptor", op, site, bid))
				}
			case "label-move", "label-new":
				name := map[string]string{"label-move": "l1", "label-new": "l2"}[op]
				if got, gerr := getLabel(st, "r", name); gerr != nil || got != s.b2 {
					x.Violate("C06|success-reported-but-label-not-set|op="+op, fmt.Sprintf("%s returned nil under %s but label %s resolves to %q (%v)", op, site, name, got, gerr))
				}
			}
		}
		// retry as a new client
		bid, rerr := c06op(s, st, op)
		s.attempts = append(s.attempts, bid)
		retry := "ok"
		if rerr != nil {
			retry = "err"
			done := err == nil || strings.Contains(site, "diamond-done")
			if !(op == "commit" && done) {
				x.Violate("C06|retry-fails|op="+op+"|after-fault", fmt.Sprintf("after %s (first attempt: %v) the retried operation failed: %v", site, err, rerr))
			}
		}
		o2 := c06battery(x, s, st, op, "after-retry|fault", false)
		c06immutability(x, s, "fault|op="+op)
		x.SetOutcome(fmt.Sprintf("fault=%s;%s;%s;retry=%s;%s", site, errTag(err), o1, retry, o2))
	}
	return sc
}

// c06sameIDScenario: two uploaders (e.g. two workers of a migration job) upload different content with the SAME preserved
// bundle ID, optionally while a third actor keeps downloading that bundle. Whatever the interleaving, at most one of
// them may report success, the visible bundle must hold the content of the one that did, a reader must never see it
// change, and no metadata object of the bundle may be rewritten once it exists.
func c06sameIDScenario() *lib.Scenario {
	const fixedID = "1INoq1vdD3KoM9Uj0uMU27IXUlm" // a valid ksuid
	sc := &lib.Scenario{Name: "same-id upload||upload||reader"}
	sc.Setup = func(x *lib.Exec) { c06setup(x, "upload") }
	metaGates := map[string]func(string, string) bool{"meta": allCalls, "vmeta": allCalls}
	contents := []map[string][]byte{c06files3, {"x": []byte("OTHER"), "q/r": []byte("another file"), "z": []byte("third")}}
	up := func(k int) lib.ClientFn {
		return func(x *lib.Exec, id int) error {
			s := x.Data["s"].(*c06state)
			_, err := uploadFiles(s.w.Gated(x, id, metaGates), "r", contents[k], c06L, 1, core.BundleID(fixedID))
			return err
		}
	}
	read := func(x *lib.Exec, st context2.Stores) (map[string][]byte, bool) {
		dest := lib.NewMemStore("dest")
		dest.NoCRC = true
		if _, err := downloadBundle(st, "r", fixedID, dest, 1); err != nil {
			return nil, false
		}
		got := dest.Snapshot()
		for k := range got {
			if strings.HasPrefix(k, ".datamon/") { // the bundle's own metadata, materialised next to the files
				delete(got, k)
			}
		}
		return got, true
	}
	same := func(a, b map[string][]byte) bool {
		if len(a) != len(b) {
			return false
		}
		for k, v := range a {
			if w, ok := b[k]; !ok || !bytes.Equal(v, w) {
				return false
			}
		}
		return true
	}
	which := func(got map[string][]byte) string {
		for k, c := range contents {
			if same(got, c) {
				return fmt.Sprintf("uploader%d", k)
			}
		}
		return "neither"
	}
	sc.Phases = [][]lib.ClientFn{{up(0), up(1),
		func(x *lib.Exec, id int) error { // reader: two complete downloads of the bundle, as soon as it exists
			s := x.Data["s"].(*c06state)
			st := s.w.Gated(x, id, map[string]func(string, string) bool{"meta": allCalls})
			var seen []string
			for i := 0; i < 2; i++ {
				if got, ok := read(x, st); ok {
					seen = append(seen, which(got))
				}
			}
			x.Data["reader"] = seen
			return nil
		}}}
	sc.Final = func(x *lib.Exec) {
		s := x.Data["s"].(*c06state)
		if x.Hung {
			x.Violate("C06|hang|same-id", "never returned")
			return
		}
		ok0, ok1 := x.ClientErr[0] == nil, x.ClientErr[1] == nil
		out := fmt.Sprintf("success=%v,%v", ok0, ok1)
		if ok0 && ok1 {
			x.Violate("C06|same-id|two-uploads-succeeded", "both uploads with the same preserved bundle ID reported success")
		}
		got, vis := read(x, s.w.Stores())
		if vis {
			w := which(got)
			out += ";visible=" + w
			if w == "neither" {
				x.Violate("C06|same-id|visible-bundle-mixes-uploads", fmt.Sprintf("bundle %s holds %d files that are the content of neither upload", fixedID, len(got)))
			} else if (w == "uploader0" && !ok0) || (w == "uploader1" && !ok1) {
				x.Violate("C06|same-id|visible-bundle-from-failed-upload", fmt.Sprintf("bundle %s holds the content of %s, whose upload reported an error (successes: %v %v)", fixedID, w, ok0, ok1))
			}
		} else {
			out += ";visible=none"
			if ok0 || ok1 {
				x.Violate("C06|same-id|successful-upload-not-downloadable", "an upload reported success but the bundle does not download")
			}
		}
		seen, _ := x.Data["reader"].([]string)
		for i, w := range seen {
			if w == "neither" || (i > 0 && w != seen[0]) || (vis && w != which(got)) {
				x.Violate("C06|same-id|reader-saw-bundle-change", fmt.Sprintf("a concurrent reader downloaded the bundle as %v, final content is %v", seen, map[bool]string{true: which(got), false: "none"}[vis]))
				break
			}
		}
		c06immutability(x, s, "same-id")
		x.SetOutcome(out + fmt.Sprintf(";reader=%v", seen))
	}
	return sc
}

func TestC06(t *testing.T) {
	rep := lib.NewReport("C06", "model_checking")
	defer rep.Finish(t)
	pb := 2
	if lib.Thorough() {
		pb = 3
	}
	rep.Rule = fmt.Sprintf("history: 2 repos, 2 committed bundles (2 index files each), a label (+ a diamond with 2 done splits); operation under test in {upload, empty upload, diamond commit, label move, new label}: (1) a crash before/after EVERY store write (blob, metadata, vmetadata) of the operation, then the observer battery (ListBundles with page sizes 1..4, GetLatestBundle, Exists, full download of every visible bundle, labels), then a retry and the battery again; (2) the battery as a concurrent reader against the in-flight operation, all interleavings with <=%d preemptions at metadata-call granularity; (3) two uploaders of different content with the same preserved bundle ID and a reader downloading that bundle twice, all interleavings with one preemption fewer: at most one success, the visible bundle is the successful one's, the reader never sees it change, no metadata object rewritten; (4) every operation under a single transient failure at EVERY store call (fail before; writes: fail after landing / after reading the body; reads: hang then fail): no partial bundle visible, earlier objects intact, a reported success means the result is completely there, a retry works; (5) histories of 1..3 committed bundles with a run of 1..3 interrupted uploads at every position: listing (full and keys-only), latest, existence and downloads; distinct = distinct (scenario, crash site, outcome)", pb)
	ops := []string{"upload", "upload-empty", "commit", "label-move", "label-new"}
	var scs []*lib.Scenario
	var bounds [][2]int
	for _, op := range ops {
		scs = append(scs, c06crashScenario(op))
		bounds = append(bounds, [2]int{0, 1})
	}
	for _, op := range []string{"upload", "commit", "label-move"} {
		scs = append(scs, c06readerScenario(op))
		b := pb
		if !lib.Thorough() && op != "upload" {
			b = 1 // quick: 2 preemptions against the upload, 1 against commit / label move
		}
		bounds = append(bounds, [2]int{b, 0})
	}
	scs = append(scs, c06sameIDScenario())
	bounds = append(bounds, [2]int{pb - 1, 0})
	for _, op := range ops {
		scs = append(scs, c06faultScenario(op))
		bounds = append(bounds, [2]int{0, 1})
	}
	stall := 6 * time.Minute
	if lib.Thorough() {
		stall = 40 * time.Minute
	}
	parent := lib.RunCases(t, rep, "TestC06", len(scs), 0, stall, func(i int) {
		e := &lib.Explorer{Sc: scs[i], PreemptBound: bounds[i][0], FaultBound: bounds[i][1], MaxExecs: 300000, Budget: stall - 2*time.Minute}
		e.Explore(t, rep)
		rep.Set("executions:"+scs[i].Name, e.Execs)
		var os []string
		for o, n := range e.Outcomes {
			os = append(os, fmt.Sprintf("%s x%d", o, n))
		}
		sort.Strings(os)
		if len(os) > 12 {
			os = os[:12]
		}
		rep.Set("outcomes:"+scs[i].Name, os)
	}, func(i int, how, output string) {
		rep.Violate("C06|worker-"+strings.SplitN(how, ":", 2)[0]+"|"+scs[i].Name, fmt.Sprintf("scenario %s: worker %s: %s", scs[i].Name, how, output), nil)
	})
	if parent {
		rep.Set("preemption_bound_completed_for_reader_scenarios", pb)
		c06leftovers(t, rep)
	}
}

// c06leftovers: histories of k committed bundles with, at every position, a RUN of 1..3 interrupted uploads (each left
// 1 or 2 index files and no descriptor, as a crash before the descriptor write does; retries that crash again give runs):
// listing shows exactly the committed bundles, latest-bundle resolution names the most recent committed one, every
// committed bundle downloads, the leftovers do not exist.
func c06leftovers(t *testing.T, rep *lib.Report) {
	n := 0
	for k := 1; k <= 3; k++ {
		for pos := 0; pos <= k; pos++ {
			for run := 1; run <= 3; run++ {
				k, pos, run := k, pos, run
				lib.Bubble(t, func() {
					w := NewWorld()
					w.Blob.NoJournal = true
					st := w.Stores()
					_ = mkRepo(st, "r")
					var ids, lefts []string
					files := map[string]map[string][]byte{}
					left := func() {
						for j := 0; j < run; j++ {
							id, _ := ksuid.NewRandom()
							for f := 0; f <= j%2; f++ {
								w.Meta.RawSet(model.GetArchivePathToBundleFileList("r", id.String(), uint64(f)), []byte("BundleEntries: []\n"))
							}
							lefts = append(lefts, id.String())
							time.Sleep(time.Second)
						}
					}
					for i := 0; i < k; i++ {
						if pos == i {
							left()
						}
						f := map[string][]byte{fmt.Sprintf("f%d", i): []byte(fmt.Sprintf("content-%d", i))}
						b, err := uploadFiles(st, "r", f, c06L, 1)
						if err != nil {
							panic(err)
						}
						ids = append(ids, b.BundleID)
						files[b.BundleID] = f
						time.Sleep(time.Second)
					}
					if pos == k {
						left()
					}
					desc := fmt.Sprintf("%d committed bundles, a run of %d interrupted uploads before #%d", k, run, pos)
					rp := map[string]interface{}{"committed": k, "leftover_run": run, "position": pos}
					shape := fmt.Sprintf("run=%d|%s", run, map[bool]string{true: "at-the-tail", false: "inside"}[pos == k])
					rep.Eval(1)
					n++
					for page := 1; page <= 3; page++ {
						bs, err := core.ListBundles("r", st, core.BatchSize(page))
						var got []string
						for _, b := range bs {
							got = append(got, b.ID)
						}
						if err != nil || strings.Join(got, ",") != strings.Join(ids, ",") {
							rep.Violate("C06|leftovers|listing-differs-from-committed-set|"+shape, fmt.Sprintf("%s: ListBundles(page=%d)=%v (%v), committed %v", desc, page, got, err, ids), rp)
							break
						}
						// the keys-only listing (what squash uses)
						bs, err = core.ListBundles("r", st, core.BatchSize(page), core.WithMinimalBundle(true))
						got = nil
						for _, b := range bs {
							got = append(got, b.ID)
						}
						if err != nil || strings.Join(got, ",") != strings.Join(ids, ",") {
							rep.Violate("C06|leftovers|keys-only-listing-differs-from-committed-set|"+shape, fmt.Sprintf("%s: ListBundles(page=%d, keys only)=%v (%v), committed %v", desc, page, got, err, ids), rp)
							break
						}
					}
					latest, err := core.GetLatestBundle("r", st)
					if err != nil || latest != ids[len(ids)-1] {
						rep.Violate("C06|leftovers|latest-is-not-the-most-recent-committed|"+shape, fmt.Sprintf("%s: GetLatestBundle=%q (%v), most recent committed %s, interrupted %v", desc, latest, err, ids[len(ids)-1], lefts), rp)
					}
					for _, id := range lefts {
						b := core.NewBundle(core.Repo("r"), core.ContextStores(st), core.BundleID(id), core.Logger(nopLogger))
						if ex, err := b.Exists(context.Background()); err == nil && ex {
							rep.Violate("C06|leftovers|interrupted-upload-exists|"+shape, fmt.Sprintf("%s: bundle %s has no descriptor but Exists says true", desc, id), rp)
						}
					}
					for _, id := range ids {
						dest := lib.NewMemStore("dest")
						dest.NoCRC, dest.NoJournal = true, true
						if _, err := downloadBundle(st, "r", id, dest, 1); err != nil {
							rep.Violate("C06|leftovers|committed-bundle-not-downloadable|"+shape, fmt.Sprintf("%s: %s: %v", desc, id, err), rp)
						}
					}
				})
			}
		}
	}
	rep.Set("histories_with_runs_of_interrupted_uploads", n)
}
