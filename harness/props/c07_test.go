package props

import (
	"fmt"
	"sort"
	"strings"
	"testing"
	"time"

	context2 "github.com/oneconcern/datamon/pkg/context"
	"github.com/oneconcern/datamon/pkg/core"
	"github.com/oneconcern/datamon/pkg/model"
	"github.com/segmentio/ksuid"
	"gopkg.in/yaml.v2"
	"verif/harness/lib"
)

// C07 — listings are complete, exact and ordered (E2: histories x every page size x list concurrency).
// Completeness / exactly-once and order are evaluated under separate signatures.

type c07listing struct {
	kind string
	ids  []string // observed sequence of object identifiers
	err  error
}

// c07check compares the listings obtained with every page size / concurrency against the model.
// want: the objects that exist (any order); wantOrder: the documented order (nil = not checked).
func c07check(rep *lib.Report, kind, history string, want []string, wantOrder []string, keysUnderPrefix int, list func(page, conc int) ([]string, error), rp interface{}, shape string) {
	sortedWant := append([]string(nil), want...)
	sort.Strings(sortedWant)
	pages := []int{}
	for p := 1; p <= keysUnderPrefix+1; p++ {
		pages = append(pages, p)
	}
	pages = append(pages, 1024)
	var first []string
	firstSet := false
	for _, page := range pages {
		for _, conc := range []int{1, 2, 32} {
			if conc != 1 && page > 3 && page != 1024 && !lib.Thorough() {
				continue
			}
			var got []string
			var err error
			ok := lib.Await(func() {
				defer func() {
					if r := recover(); r != nil {
						err = fmt.Errorf("panic: %v", r)
					}
				}()
				got, err = list(page, conc)
			}, time.Hour)
			rep.Eval(1)
			rep.AddStates(0, 1, 1)
			if !ok {
				rep.Violate(fmt.Sprintf("C07|%s|hang|%s", kind, shape), fmt.Sprintf("%s: listing with page=%d conc=%d never returns", history, page, conc), rp)
				return
			}
			if err != nil {
				rep.Violate(fmt.Sprintf("C07|%s|error|%s", kind, shape), fmt.Sprintf("%s: page=%d conc=%d: %v", history, page, conc, err), rp)
				continue
			}
			gs := append([]string(nil), got...)
			sort.Strings(gs)
			if strings.Join(gs, ",") != strings.Join(sortedWant, ",") {
				what := "incomplete"
				cnt := map[string]int{}
				for _, g := range got {
					cnt[g]++
				}
				for _, n := range cnt {
					if n > 1 {
						what = "duplicates"
					}
				}
				ws := map[string]bool{}
				for _, w := range want {
					ws[w] = true
				}
				for g := range cnt {
					if !ws[g] {
						what = "extra"
					}
				}
				rep.Violate(fmt.Sprintf("C07|%s|%s|%s", kind, what, shape), fmt.Sprintf("%s: page=%d conc=%d: listed %v, existing %v", history, page, conc, got, sortedWant), rp)
				continue
			}
			if !firstSet {
				first, firstSet = got, true
			} else if strings.Join(got, ",") != strings.Join(first, ",") {
				rep.Violate(fmt.Sprintf("C07|%s|order-depends-on-page-size", kind), fmt.Sprintf("%s: page=%d conc=%d gives %v, page=%d gives %v", history, page, conc, got, pages[0], first), rp)
			}
			if wantOrder != nil && strings.Join(got, ",") != strings.Join(wantOrder, ",") {
				rep.Violate(fmt.Sprintf("C07|%s|order-not-as-documented", kind), fmt.Sprintf("%s: page=%d conc=%d gives %v, documented order %v", history, page, conc, got, wantOrder), rp)
			}
		}
	}
}

func countPrefix(s *lib.MemStore, prefix string) int {
	n := 0
	for _, k := range s.RawKeys() {
		if strings.HasPrefix(k, prefix) {
			n++
		}
	}
	return n
}

func putYAML(s *lib.MemStore, key string, v interface{}) {
	b, err := yaml.Marshal(v)
	if err != nil {
		panic(err)
	}
	s.RawSet(key, b)
}

func listOpts(page, conc int) []core.Option {
	return []core.Option{core.BatchSize(page), core.ConcurrentList(conc)}
}

// ---- repos
func c07repos(t *testing.T, rep *lib.Report) {
	names := []string{"a", "ab", "a-b", "b"}
	for mask := 0; mask < 1<<uint(len(names)); mask++ {
		mask := mask
		lib.Bubble(t, func() {
			w := NewWorld()
			st := w.Stores()
			var want []string
			for i, n := range names {
				if mask&(1<<uint(i)) != 0 {
					if err := mkRepo(st, n); err != nil {
						panic(err)
					}
					want = append(want, n)
				}
			}
			byKey := append([]string(nil), want...)
			sort.Slice(byKey, func(i, j int) bool {
				return model.GetArchivePathToRepoDescriptor(byKey[i]) < model.GetArchivePathToRepoDescriptor(byKey[j])
			})
			history := fmt.Sprintf("repos %v", want)
			c07check(rep, "repos", history, want, byKey, countPrefix(w.Meta, "repos/"), func(page, conc int) ([]string, error) {
				rs, err := core.ListRepos(st, listOpts(page, conc)...)
				var ids []string
				for _, r := range rs {
					ids = append(ids, r.Name)
				}
				return ids, err
			}, history, "plain")
			c07check(rep, "repos-apply", history, want, byKey, countPrefix(w.Meta, "repos/"), func(page, conc int) ([]string, error) {
				var ids []string
				err := core.ListReposApply(st, func(r model.RepoDescriptor) error { ids = append(ids, r.Name); return nil }, listOpts(page, conc)...)
				return ids, err
			}, history, "plain")
			rep.Outcome(history)
			rep.AddStates(1, 0, 0)
		})
	}
}

// ---- bundles + labels
func c07bundles(t *testing.T, rep *lib.Report) {
	maxB := 4
	if lib.Thorough() {
		maxB = 5
	}
	for nb := 0; nb <= maxB; nb++ {
		for leftover := -1; leftover <= nb; leftover++ { // -1: none; k: an interrupted upload inserted before bundle k
			for labelSet := 0; labelSet < 4; labelSet++ {
				if nb == 0 && labelSet != 0 {
					continue
				}
				nb, leftover, labelSet := nb, leftover, labelSet
				lib.Bubble(t, func() {
					w := NewWorld()
					st := w.Stores()
					_ = mkRepo(st, "a")
					_ = mkRepo(st, "ab")
					var ids []string
					left := func() {
						id, _ := ksuid.NewRandom()
						w.Meta.RawSet(model.GetArchivePathToBundleFileList("a", id.String(), 0), []byte("BundleEntries: []\n"))
						w.Meta.RawSet(model.GetArchivePathToBundleFileList("a", id.String(), 1), []byte("BundleEntries: []\n"))
					}
					for i := 0; i < nb; i++ {
						if leftover == i {
							left()
							time.Sleep(time.Second)
						}
						b, err := uploadFiles(st, "a", map[string][]byte{fmt.Sprintf("f%d", i): []byte("x")}, c11L, 1)
						if err != nil {
							panic(err)
						}
						ids = append(ids, b.BundleID)
						time.Sleep(time.Second)
					}
					if leftover == nb {
						left()
					}
					if _, err := uploadFiles(st, "ab", map[string][]byte{"other": []byte("y")}, c11L, 1); err != nil {
						panic(err)
					}
					history := fmt.Sprintf("%d bundles, interrupted upload before #%d, label set %d", nb, leftover, labelSet)
					shape := "plain"
					if leftover >= 0 {
						shape = "with-interrupted-upload"
					}
					c07check(rep, "bundles", history, ids, ids, countPrefix(w.Meta, "bundles/a/"), func(page, conc int) ([]string, error) {
						bs, err := core.ListBundles("a", st, listOpts(page, conc)...)
						var o []string
						for _, b := range bs {
							o = append(o, b.ID)
						}
						return o, err
					}, history, shape)
					// the keys-only ("minimal") variant used by squash: same bundles, descriptors not fetched
					c07check(rep, "bundles-minimal", history, ids, ids, countPrefix(w.Meta, "bundles/a/"), func(page, conc int) ([]string, error) {
						bs, err := core.ListBundles("a", st, append(listOpts(page, conc), core.WithMinimalBundle(true))...)
						var o []string
						for _, b := range bs {
							o = append(o, b.ID)
						}
						return o, err
					}, history, shape)
					c07check(rep, "bundles-apply", history, ids, ids, countPrefix(w.Meta, "bundles/a/"), func(page, conc int) ([]string, error) {
						var o []string
						err := core.ListBundlesApply("a", st, func(b model.BundleDescriptor) error { o = append(o, b.ID); return nil }, listOpts(page, conc)...)
						return o, err
					}, history, shape)
					// labels: names chosen so that key order, name order and bundle-ID order all differ
					labelNames := [][]string{{}, {"x"}, {"x", "x-y", "v1"}, {"y", "x-y", "x", "v1"}}[labelSet]
					var lnames []string
					for i, ln := range labelNames {
						target := ids[(len(ids)-1-i+len(ids)*4)%len(ids)]
						if err := setLabel(st, "a", ln, target); err != nil {
							panic(err)
						}
						lnames = append(lnames, ln)
					}
					if nb > 0 {
						_ = setLabel(st, "ab", "x", ids[0])
					}
					for _, pfx := range []string{"", "x", "v"} {
						var want []string
						for _, ln := range lnames {
							if strings.HasPrefix(ln, pfx) {
								want = append(want, ln)
							}
						}
						byKey := append([]string(nil), want...)
						sort.Slice(byKey, func(i, j int) bool {
							return model.GetArchivePathToLabel("a", byKey[i]) < model.GetArchivePathToLabel("a", byKey[j])
						})
						h := history + fmt.Sprintf(", labels %v, prefix %q", lnames, pfx)
						c07check(rep, "labels", h, want, byKey, countPrefix(w.VMeta, "labels/a/"+pfx), func(page, conc int) ([]string, error) {
							ls, err := core.ListLabels("a", st, append(listOpts(page, conc), core.WithLabelPrefix(pfx))...)
							var o []string
							for _, l := range ls {
								o = append(o, l.Name)
							}
							return o, err
						}, h, "plain")
					}
					rep.Outcome(history)
					rep.AddStates(1, 0, 0)
					rep.AddStates(1, 0, 0)
				})
			}
		}
	}
}

// ---- diamonds + splits
type c07diamondCfg struct {
	diamonds   int
	splits     int
	indexFiles int
	gens       int
	userIDs    bool
}

func c07diamonds(t *testing.T, rep *lib.Report) {
	var cfgs []c07diamondCfg
	maxD, maxS := 2, 2
	if lib.Thorough() {
		maxD, maxS = 3, 3
	}
	for d := 0; d <= maxD; d++ {
		for s := 0; s <= maxS; s++ {
			for _, f := range []int{0, 1, 3} {
				for g := 1; g <= 2; g++ {
					for _, u := range []bool{false, true} {
						if d == 0 && (s > 0 || f > 0 || g > 1 || u) {
							continue
						}
						if s == 0 && (f > 0 || g > 1 || u) {
							continue
						}
						if f == 0 && g > 1 {
							continue
						}
						cfgs = append(cfgs, c07diamondCfg{d, s, f, g, u})
					}
				}
			}
		}
	}
	for _, c := range cfgs {
		c := c
		lib.Bubble(t, func() {
			w := NewWorld()
			st := w.Stores()
			_ = mkRepo(st, "a")
			type dm struct {
				id     string
				splits []string // in start-time order
			}
			var ds []dm
			for di := 0; di < c.diamonds; di++ {
				dd, err := core.CreateDiamond("a", st, core.DiamondLogger(nopLogger))
				if err != nil {
					panic(err)
				}
				d := dm{id: dd.DiamondID}
				time.Sleep(time.Second)
				for si := 0; si < c.splits; si++ {
					sid := ""
					if c.userIDs {
						sid = []string{"zz-pod", "split-1", "diamond-x"}[si] // start-time order differs from ID order; two IDs look like descriptor file names
					}
					desc := model.NewSplitDescriptor(model.SplitID(sid), model.SplitContributor(model.Contributor{Name: "v", Email: "v@x.io"}))
					sd, err := core.CreateSplit("a", dd.DiamondID, st, core.SplitDescriptor(desc), core.SplitLogger(nopLogger))
					if err != nil {
						panic(err)
					}
					done := (si+di)%2 == 0
					gen, _ := ksuid.NewRandom()
					for g := 0; g < c.gens; g++ {
						for f := 0; f < c.indexFiles; f++ {
							w.VMeta.RawSet(model.GetArchivePathToSplitFileList("a", dd.DiamondID, sd.SplitID, gen.String(), uint64(f)), []byte("BundleEntries: []\n"))
						}
						if g+1 < c.gens {
							gen, _ = ksuid.NewRandom()
						}
					}
					if done {
						sd.State, sd.EndTime, sd.GenerationID, sd.SplitEntriesFileCount = model.SplitDone, time.Now(), gen.String(), uint64(c.indexFiles)
						putYAML(w.VMeta, model.GetArchivePathToFinalSplit("a", dd.DiamondID, sd.SplitID), sd)
					}
					d.splits = append(d.splits, sd.SplitID)
					time.Sleep(time.Second)
				}
				switch di % 3 {
				case 1:
					dd.State, dd.EndTime = model.DiamondDone, time.Now()
					putYAML(w.VMeta, model.GetArchivePathToFinalDiamond("a", dd.DiamondID), dd)
				case 2:
					dd.State, dd.EndTime = model.DiamondCanceled, time.Now()
					putYAML(w.VMeta, model.GetArchivePathToFinalDiamond("a", dd.DiamondID), dd)
				}
				ds = append(ds, d)
			}
			history := fmt.Sprintf("%d diamonds x %d splits x %d index files x %d generations, user split IDs=%v", c.diamonds, c.splits, c.indexFiles, c.gens, c.userIDs)
			shape := "plain"
			if c.indexFiles > 0 {
				shape = "splits-with-index-files"
			} else if c.splits > 0 {
				shape = "diamonds-with-splits"
			}
			var dids []string
			for _, d := range ds {
				dids = append(dids, d.id)
			}
			dl := func(apply bool) func(page, conc int) ([]string, error) {
				return func(page, conc int) ([]string, error) {
					var o []string
					if apply {
						err := core.ListDiamondsApply("a", st, func(d model.DiamondDescriptor) error { o = append(o, d.DiamondID+":"+string(d.State)); return nil }, listOpts(page, conc)...)
						return o, err
					}
					l, err := core.ListDiamonds("a", st, listOpts(page, conc)...)
					for _, d := range l {
						o = append(o, d.DiamondID+":"+string(d.State))
					}
					return o, err
				}
			}
			var wantD []string
			for i, id := range dids {
				wantD = append(wantD, id+":"+[]string{"initialized", "done", "canceled"}[i%3])
			}
			c07check(rep, "diamonds", history, wantD, wantD, countPrefix(w.VMeta, "diamonds/a/"), dl(false), history, shape)
			c07check(rep, "diamonds-apply", history, wantD, wantD, countPrefix(w.VMeta, "diamonds/a/"), dl(true), history, shape)
			for di, d := range ds {
				var wantS []string
				for si, sid := range d.splits {
					state := "running"
					if (si+di)%2 == 0 {
						state = "done"
					}
					wantS = append(wantS, sid+":"+state)
				}
				h := history + fmt.Sprintf(", splits of diamond #%d", di)
				c07check(rep, "splits", h, wantS, wantS, countPrefix(w.VMeta, model.GetArchivePathPrefixToSplits("a", d.id)), func(page, conc int) ([]string, error) {
					l, err := core.ListSplits("a", d.id, st, listOpts(page, conc)...)
					var o []string
					for _, s := range l {
						o = append(o, s.SplitID+":"+string(s.State))
					}
					return o, err
				}, h, shape)
				c07check(rep, "splits-apply", h, wantS, wantS, countPrefix(w.VMeta, model.GetArchivePathPrefixToSplits("a", d.id)), func(page, conc int) ([]string, error) {
					var o []string
					err := core.ListSplitsApply("a", d.id, st, func(s model.SplitDescriptor) error { o = append(o, s.SplitID+":"+string(s.State)); return nil }, listOpts(page, conc)...)
					return o, err
				}, h, shape)
			}
			rep.Outcome(history)
			rep.AddStates(1, 0, 0)
		})
	}
}

func TestC07(t *testing.T) {
	rep := lib.NewReport("C07", "model_checking")
	defer rep.Finish(t)
	rep.Rule = "histories built with the real operations inside a fake-clock bubble (+ injected index-file keys): repos = all subsets of {a,ab,a-b,b}; 0..5 bundles with an interrupted upload at every position, 4 label sets x 3 prefix filters; 0..3 diamonds x 0..3 splits (running/done, user-supplied IDs) x {0,1,3} index files x 1..2 generations, diamond states initialized/done/canceled; every list function (and its Apply variant; bundles also in the keys-only mode squash uses) with EVERY page size 1..K+1 (K = keys under the scanned prefix) and 1024, concurrency {1,2,32}; oracle: multiset = existing objects (complete / exactly once / nothing else), sequence identical for every page size, sequence = documented order; plus every listing function (page size 2) under every single transient fault at each of its metadata calls (fail before / hang then fail): either an error or exactly the existing objects; distinct = distinct histories"
	_ = context2.New
	c07repos(t, rep)
	c07bundles(t, rep)
	c07diamonds(t, rep)
	listingFaultSweep(t, rep, "C07", []string{"repos", "bundles", "labels", "diamonds", "splits"})
}
