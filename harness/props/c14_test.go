package props

import (
	"bytes"
	"context"
	"fmt"
	"os"
	"sort"
	"strings"
	"testing"
	"time"

	context2 "github.com/oneconcern/datamon/pkg/context"
	"github.com/oneconcern/datamon/pkg/core"
	"verif/harness/lib"
)

// C14 — purging removes exactly the unreferenced old blobs, one job at a time.
// (a) E2: all histories of <=3 steps (upload / delete bundle / squash over two repos and an extra context sharing the
//     blob store) x every index chunk size; (b) E1: concurrent PurgeLock contenders, all interleavings.

const c14L = 64

var c14contents = map[string][]byte{
	"A":  pattern("pos", 100, c14L),                                                             // 2 leaves
	"A'": append(append([]byte(nil), pattern("pos", 64, c14L)...), []byte("different tail")...), // shares A's first leaf
	"C":  []byte("small"),
	"B":  pattern("pos", 12*c14L, c14L), // 12 leaves, the first shared with A (C13 only: an index of more than 10 chunks)
	"D":  []byte("held by a bundle of the extra context only"), // C13 only
}

type c14step struct {
	Op      string // upload | delete | squash
	Repo    string // r1 | r2 | x:r3 (extra context)
	Content string
}

func (s c14step) String() string {
	if s.Op == "upload" {
		return fmt.Sprintf("upload(%s,%s)", s.Content, s.Repo)
	}
	return fmt.Sprintf("%s(%s)", s.Op, s.Repo)
}

type c14world struct {
	w       *World
	extra   *World // second context: own metadata, shared blob store
	bundles map[string][]string
	content map[string]string // bundle id -> content name
}

func (cw *c14world) stores(repo string) (context2.Stores, string) {
	if strings.HasPrefix(repo, "x:") {
		return cw.extra.Stores(), strings.TrimPrefix(repo, "x:")
	}
	return cw.w.Stores(), repo
}

func c14new() *c14world {
	w := NewWorld()
	extra := &World{Meta: lib.NewMemStore("meta2"), VMeta: lib.NewMemStore("vmeta2"), Blob: w.Blob, Wal: w.Wal, ReadLog: w.ReadLog}
	cw := &c14world{w: w, extra: extra, bundles: map[string][]string{}, content: map[string]string{}}
	for _, r := range []string{"r1", "r2", "x:r3"} {
		st, name := cw.stores(r)
		if err := mkRepo(st, name); err != nil {
			panic(err)
		}
	}
	return cw
}

func (cw *c14world) apply(s c14step) error {
	st, name := cw.stores(s.Repo)
	switch s.Op {
	case "upload":
		b, err := uploadFiles(st, name, map[string][]byte{"f": c14contents[s.Content], "g/" + s.Content: c14contents["C"]}, c14L, 0)
		if err != nil {
			return err
		}
		cw.bundles[s.Repo] = append(cw.bundles[s.Repo], b.BundleID)
		cw.content[b.BundleID] = s.Content
		time.Sleep(time.Second)
	case "delete":
		l := cw.bundles[s.Repo]
		if len(l) == 0 {
			return nil
		}
		if err := core.DeleteBundle(name, st, l[len(l)-1]); err != nil {
			return err
		}
		cw.bundles[s.Repo] = l[:len(l)-1]
	case "squash":
		if err := core.RepoSquash(st, name); err != nil {
			return err
		}
		if l := cw.bundles[s.Repo]; len(l) > 1 {
			cw.bundles[s.Repo] = l[len(l)-1:]
		}
	}
	return nil
}

// referenced returns the blob keys (roots and leaves) referenced by the live bundles.
func (cw *c14world) referenced() map[string]bool {
	out := map[string]bool{}
	for _, l := range cw.bundles {
		for _, id := range l {
			for _, data := range [][]byte{c14contents[cw.content[id]], c14contents["C"]} {
				st := lib.NewMemStore("x")
				st.NoJournal = true
				res, err := newFs(st, c14L, 1, 0, 4).Put(context.Background(), bytes.NewReader(data))
				if err != nil {
					panic(err)
				}
				for _, k := range st.RawKeys() {
					out[k] = true
				}
				_ = res
			}
		}
	}
	return out
}

func setKeys(m map[string]bool) []string {
	var o []string
	for k := range m {
		o = append(o, k[:8])
	}
	sort.Strings(o)
	return o
}

// c14readIndex parses the uploaded index chunks.
func c14readIndex(meta *lib.MemStore) (keys map[string]int, headers map[string]bool, chunks int, err error) {
	keys, headers = map[string]int{}, map[string]bool{}
	for _, k := range meta.RawKeys() {
		if !strings.HasPrefix(k, "reverse-index/") {
			continue
		}
		chunks++
		b, _ := meta.RawGet(k)
		lines := strings.Split(strings.TrimRight(string(b), "\n"), "\n")
		if len(lines) == 0 || lines[0] == "" {
			return nil, nil, chunks, fmt.Errorf("chunk %s has no header", k)
		}
		headers[lines[0]] = true
		for _, l := range lines[1:] {
			keys[l]++
		}
	}
	return
}

func c14run(t *testing.T, rep *lib.Report, h []c14step, chunk uint64, uploadAfter bool) {
	lib.Bubble(t, func() {
		cw := c14new()
		hs := fmt.Sprint(h)
		rp := map[string]interface{}{"history": hs, "chunk_size": chunk, "upload_between_index_and_delete": uploadAfter}
		desc := fmt.Sprintf("history %s chunk=%d uploadAfter=%v", hs, chunk, uploadAfter)
		for _, s := range h {
			if err := cw.apply(s); err != nil {
				rep.Violate("C14|history-step-error|"+s.Op, desc+": "+err.Error(), rp)
				return
			}
		}
		time.Sleep(time.Second)
		dir, err := os.MkdirTemp("", "verif-c14-")
		if err != nil {
			panic(err)
		}
		defer os.RemoveAll(dir)
		// scan parallelism 1 or 2 (by chunk size parity): with 1, a context holds more repositories than scanner slots
		opts := []core.PurgeOption{core.WithPurgeLocalStore(dir), core.WithPurgeLogger(nopLogger), core.WithPurgeIndexChunkSize(chunk),
			core.WithPurgeExtraContexts([]context2.Stores{cw.extra.Stores()}), core.WithPurgeParallel(1 + int(chunk%2))}
		var idx *core.PurgeIndex
		var ierr error
		if !lib.Await(func() { idx, ierr = core.PurgeBuildReverseIndex(cw.w.Stores(), opts...) }, 24*time.Hour) {
			rep.Violate("C14|index-build-hangs", desc, rp)
			return
		}
		rep.Eval(1)
		if ierr != nil {
			rep.Violate("C14|index-build-error", desc+": "+ierr.Error(), rp)
			return
		}
		want := cw.referenced()
		keys, headers, chunks, perr := c14readIndex(cw.w.Meta)
		if perr != nil {
			rep.Violate("C14|index-chunk-malformed", desc+": "+perr.Error(), rp)
			return
		}
		for k, n := range keys {
			if n > 1 {
				rep.Violate("C14|index-key-listed-twice", fmt.Sprintf("%s: key %s appears %d times across %d chunks", desc, k[:8], n, chunks), rp)
			}
			if !want[k] {
				rep.Violate("C14|index-has-unreferenced-key", fmt.Sprintf("%s: key %s is indexed but referenced by no live bundle", desc, k[:8]), rp)
			}
		}
		for k := range want {
			if keys[k] == 0 {
				rep.Violate("C14|index-misses-referenced-key", fmt.Sprintf("%s: key %s is referenced by a live bundle but is not in any of the %d chunks", desc, k[:8], chunks), rp)
			}
		}
		if len(want) > 0 && (len(headers) != 1 || !headers[idx.IndexTime.Format(time.RFC3339Nano)]) {
			rep.Violate("C14|index-header-time", fmt.Sprintf("%s: chunk headers %v, index time %s", desc, headers, idx.IndexTime.Format(time.RFC3339Nano)), rp)
		}
		if int(idx.NumEntries) != len(want) {
			rep.Violate("C14|index-entry-count", fmt.Sprintf("%s: reported %d entries, %d keys referenced", desc, idx.NumEntries, len(want)), rp)
		}
		time.Sleep(time.Second)
		before := cw.w.Blob.Snapshot()
		newer := map[string]bool{}
		if uploadAfter {
			st, name := cw.stores("r2")
			if _, err := uploadFiles(st, name, map[string][]byte{"new": []byte("uploaded after the index"), "f": c14contents["A"]}, c14L, 0); err != nil {
				rep.Violate("C14|upload-after-index-error", desc+": "+err.Error(), rp)
				return
			}
			for k := range cw.w.Blob.Snapshot() {
				if _, ok := before[k]; !ok {
					newer[k] = true
				}
			}
		}
		var perr2 error
		if !lib.Await(func() { _, perr2 = core.PurgeDeleteUnused(cw.w.Stores(), opts...) }, 24*time.Hour) {
			rep.Violate("C14|delete-unused-hangs", desc, rp)
			return
		}
		rep.Eval(1)
		if perr2 != nil {
			rep.Violate("C14|delete-unused-error", desc+": "+perr2.Error(), rp)
			return
		}
		after := cw.w.Blob.Snapshot()
		for k := range before {
			_, still := after[k]
			switch {
			case want[k] && !still:
				rep.Violate("C14|referenced-blob-deleted", fmt.Sprintf("%s: blob %s is referenced by a live bundle and was deleted", desc, k[:8]), rp)
			case !want[k] && still && !newer[k]:
				rep.Violate("C14|unreferenced-old-blob-kept", fmt.Sprintf("%s: blob %s is older than the index, referenced by no scanned bundle, and was kept", desc, k[:8]), rp)
			}
		}
		for k := range newer {
			if _, still := after[k]; !still {
				rep.Violate("C14|blob-newer-than-index-deleted", fmt.Sprintf("%s: blob %s was written after the index and was deleted", desc, k[:8]), rp)
			}
		}
		rep.Outcome(fmt.Sprintf("%s|%d|%v", hs, chunk, uploadAfter))
	})
}

// c14resume: build the index over history h1, upload more bundles (h2, uploads only), build again with the resume
// option (the way an interrupted or outdated index is completed): the index must again hold exactly the referenced
// keys, each once, and delete-unused must keep every referenced blob. Histories with content B give more than 10
// chunks at chunk size 1, whose names are not listed in numeric order.
func c14resume(t *testing.T, rep *lib.Report, h1, h2 []c14step, chunk uint64) {
	lib.Bubble(t, func() {
		cw := c14new()
		desc := fmt.Sprintf("resume: history %v, index(chunk=%d), then %v, index(resume)", h1, chunk, h2)
		rp := map[string]interface{}{"history": fmt.Sprint(h1), "then": fmt.Sprint(h2), "chunk_size": chunk, "resume": true}
		for _, s := range h1 {
			if err := cw.apply(s); err != nil {
				panic(err)
			}
		}
		time.Sleep(time.Second)
		dir, err := os.MkdirTemp("", "verif-c14r-")
		if err != nil {
			panic(err)
		}
		defer os.RemoveAll(dir)
		opts := func(sub string, extra ...core.PurgeOption) []core.PurgeOption {
			return append([]core.PurgeOption{core.WithPurgeLocalStore(dir + "/" + sub), core.WithPurgeLogger(nopLogger), core.WithPurgeIndexChunkSize(chunk),
				core.WithPurgeExtraContexts([]context2.Stores{cw.extra.Stores()}), core.WithPurgeParallel(2)}, extra...)
		}
		var ierr error
		if !lib.Await(func() { _, ierr = core.PurgeBuildReverseIndex(cw.w.Stores(), opts("kv0")...) }, 24*time.Hour) || ierr != nil {
			rep.Violate("C14|resume|first-index-build-fails", fmt.Sprintf("%s: %v", desc, ierr), rp)
			return
		}
		_, _, chunks1, _ := c14readIndex(cw.w.Meta)
		time.Sleep(time.Second)
		for _, s := range h2 {
			if err := cw.apply(s); err != nil {
				panic(err)
			}
		}
		time.Sleep(time.Second)
		if !lib.Await(func() {
			_, ierr = core.PurgeBuildReverseIndex(cw.w.Stores(), opts("kv1", core.WithPurgeResumeIndex(true))...)
		}, 24*time.Hour) || ierr != nil {
			rep.Violate("C14|resume|resumed-index-build-fails", fmt.Sprintf("%s: %v", desc, ierr), rp)
			return
		}
		rep.Eval(2)
		want := cw.referenced()
		keys, headers, chunks, perr := c14readIndex(cw.w.Meta)
		if perr != nil {
			rep.Violate("C14|resume|index-chunk-malformed", desc+": "+perr.Error(), rp)
			return
		}
		for k, n := range keys {
			if n > 1 {
				rep.Violate("C14|resume|index-key-listed-twice", fmt.Sprintf("%s: key %s appears %d times across %d chunks", desc, k[:8], n, chunks), rp)
			}
			if !want[k] {
				rep.Violate("C14|resume|index-has-unreferenced-key", fmt.Sprintf("%s: key %s is indexed but referenced by no live bundle", desc, k[:8]), rp)
			}
		}
		for k := range want {
			if keys[k] == 0 {
				rep.Violate("C14|resume|index-misses-referenced-key", fmt.Sprintf("%s: key %s is referenced by a live bundle but is in none of the %d chunks (%d chunks before the resumed build)", desc, k[:8], chunks, chunks1), rp)
			}
		}
		if len(headers) != 1 {
			rep.Violate("C14|resume|index-header-time", fmt.Sprintf("%s: chunk headers %v", desc, headers), rp)
		}
		time.Sleep(time.Second)
		before := cw.w.Blob.Snapshot()
		var derr error
		if !lib.Await(func() { _, derr = core.PurgeDeleteUnused(cw.w.Stores(), opts("kv2")...) }, 24*time.Hour) || derr != nil {
			rep.Violate("C14|resume|delete-unused-fails", fmt.Sprintf("%s: %v", desc, derr), rp)
			return
		}
		rep.Eval(1)
		after := cw.w.Blob.Snapshot()
		for k := range before {
			if _, still := after[k]; want[k] && !still {
				rep.Violate("C14|resume|referenced-blob-deleted", fmt.Sprintf("%s: blob %s is referenced by a live bundle and was deleted", desc, k[:8]), rp)
			}
		}
		rep.Outcome(fmt.Sprintf("resume|%v|%v|%d|chunks=%d->%d", h1, h2, chunk, chunks1, chunks))
	})
}

func c14histories(maxDepth int) [][]c14step {
	var alphabet []c14step
	for _, r := range []string{"r1", "r2", "x:r3"} {
		for _, c := range []string{"A", "A'", "C"} {
			alphabet = append(alphabet, c14step{"upload", r, c})
		}
		alphabet = append(alphabet, c14step{"delete", r, ""}, c14step{"squash", r, ""})
	}
	var out [][]c14step
	var gen func(h []c14step)
	gen = func(h []c14step) {
		out = append(out, append([]c14step(nil), h...))
		if len(h) == maxDepth {
			return
		}
		for _, s := range alphabet {
			if s.Op != "upload" {
				// delete / squash of a repo without bundle is a no-op already covered by the shorter history
				n := 0
				for _, p := range h {
					if p.Repo == s.Repo && p.Op == "upload" {
						n++
					}
				}
				if n == 0 {
					continue
				}
			}
			gen(append(h, s))
		}
	}
	gen(nil)
	return out
}

func TestC14(t *testing.T) {
	rep := lib.NewReport("C14", "model_checking")
	defer rep.Finish(t)
	depth := 2
	if lib.Thorough() {
		depth = 3
	}
	hists := c14histories(depth)
	type job struct {
		h     []c14step
		then  []c14step // non-nil: a resumed build after these further uploads
		chunk uint64
		after bool
	}
	var jobs []job
	// resumed builds: first histories x one or two further uploads x chunk sizes
	ups := func(cs ...string) (o []c14step) {
		for i := 0; i+1 < len(cs); i += 2 {
			o = append(o, c14step{"upload", cs[i], cs[i+1]})
		}
		return
	}
	for _, h1 := range [][]c14step{ups("r1", "B"), ups("r1", "B", "r2", "A'"), ups("r1", "A", "x:r3", "C"), ups("r1", "C")} {
		for _, h2 := range [][]c14step{ups("r1", "A"), ups("r2", "A'"), ups("x:r3", "C"), ups("r2", "B"), ups("r2", "A'", "r1", "C"), ups("x:r3", "B", "r1", "A'")} {
			for _, c := range []uint64{1, 2, 3, 7} {
				jobs = append(jobs, job{h: h1, then: h2, chunk: c})
			}
		}
	}
	nResume := len(jobs)
	for _, h := range hists {
		maxKeys := 2 + 4*len(h)
		if maxKeys > 9 {
			maxKeys = 9
		}
		for c := 1; c <= maxKeys; c++ {
			if !lib.Thorough() && len(h) == 2 && c > 3 && c != maxKeys {
				continue
			}
			jobs = append(jobs, job{h: h, chunk: uint64(c), after: c%2 == 0})
		}
	}
	rep.Rule = fmt.Sprintf("(a) all histories of <=%d steps over {upload A / A' (shares a leaf with A) / C to r1, r2 or a repo of an extra context sharing the blob store; delete last bundle; squash} x every index chunk size 1..#keys+1 (alternating with/without an upload between index build and delete-unused, and scan parallelism 2 / 1, i.e. as many / fewer scanner slots than repositories of a context), blobs aged one fake second: union of chunk files = exactly the referenced roots+leaves, no key twice, one header time = index time; after delete-unused the blob store = referenced + newer-than-index; (a') 4 first histories (two with a 12-leaf file: >10 chunks at chunk size 1) x 6 further upload sequences x chunk sizes {1,2,3,7}: index, more uploads, index again with the resume option: again exactly the referenced keys, each once, one header time, delete-unused keeps every referenced blob; (b) 2..3 PurgeLock contenders (+force, +unlock) under all interleavings; (c) an index build (chunk size 2, 4 bundles over 2 contexts) with every store call gated and the uploader's 5-minute ticker firing between any two of them (1 tick, thorough 2), no fault: the index is still exact; distinct = distinct (history, chunk size)", depth)
	parent := lib.RunCases(t, rep, "TestC14", len(jobs), 0, 180*time.Second, func(i int) {
		if jobs[i].then != nil {
			c14resume(t, rep, jobs[i].h, jobs[i].then, jobs[i].chunk)
			rep.AddStates(1, 3, 3)
			return
		}
		c14run(t, rep, jobs[i].h, jobs[i].chunk, jobs[i].after)
		rep.AddStates(1, 2, 2)
	}, func(i int, how, output string) {
		rep.Violate("C14|worker-"+strings.SplitN(how, ":", 2)[0], fmt.Sprintf("history %v chunk %d: worker %s: %s", jobs[i].h, jobs[i].chunk, how, output), nil)
	})
	if !parent {
		return
	}
	rep.Set("histories", len(hists))
	rep.Set("index_builds", len(jobs)+nResume)
	rep.Set("resumed_builds", nResume)
	rep.Sample(map[string]interface{}{"history": fmt.Sprint(jobs[len(jobs)/2].h), "chunk_size": jobs[len(jobs)/2].chunk})
	c14locks(t, rep)
	c14ticks(t, rep)
}

// ---- (c) no fault, but a slow scan: the 5-minute ticker of the chunk uploader may fire between any two store calls
func c14ticks(t *testing.T, rep *lib.Report) {
	gates := map[string]func(string, string) bool{"meta": allCalls, "blob": allCalls}
	sc := &lib.Scenario{Name: "index-build-with-uploader-ticks", Ticks: []time.Duration{5 * time.Minute}}
	sc.Setup = func(x *lib.Exec) {
		cw := c14new()
		for _, st := range []c14step{{"upload", "r1", "A"}, {"upload", "r2", "A'"}, {"upload", "x:r3", "C"}, {"upload", "r1", "B"}} {
			if err := cw.apply(st); err != nil {
				panic(err)
			}
		}
		time.Sleep(time.Second)
		dir, err := os.MkdirTemp("", "verif-c14t-")
		if err != nil {
			panic(err)
		}
		x.Data["cw"], x.Data["dir"] = cw, dir
	}
	opts := func(x *lib.Exec, cw *c14world, sub string) []core.PurgeOption {
		return []core.PurgeOption{core.WithPurgeLocalStore(x.Data["dir"].(string) + "/" + sub), core.WithPurgeLogger(nopLogger), core.WithPurgeIndexChunkSize(2),
			core.WithPurgeExtraContexts([]context2.Stores{cw.extra.Stores()}), core.WithPurgeParallel(1)}
	}
	sc.Phases = [][]lib.ClientFn{{func(x *lib.Exec, id int) error {
		cw := x.Data["cw"].(*c14world)
		_, err := core.PurgeBuildReverseIndex(cw.w.Gated(x, id, gates), opts(x, cw, "kv0")...)
		return err
	}}}
	sc.Final = func(x *lib.Exec) {
		defer os.RemoveAll(x.Data["dir"].(string))
		cw := x.Data["cw"].(*c14world)
		ticks := 0
		for _, s := range x.Steps {
			if strings.HasPrefix(s.Granted, "tick") {
				ticks++
			}
		}
		x.SetOutcome(fmt.Sprintf("ticks=%d;%s", ticks, errTag(x.ClientErr[0])))
		if x.Hung {
			x.Violate("C14|ticks|index-build-hangs", "never returned")
			return
		}
		if x.ClientErr[0] != nil {
			x.Violate("C14|ticks|index-build-error", x.ClientErr[0].Error())
			return
		}
		want := cw.referenced()
		keys, _, chunks, perr := c14readIndex(cw.w.Meta)
		if perr != nil {
			x.Violate("C14|ticks|index-chunk-malformed", perr.Error())
			return
		}
		for k, n := range keys {
			if n > 1 {
				x.Violate("C14|ticks|index-key-listed-twice", fmt.Sprintf("key %s appears %d times across %d chunks (uploader fired %d times during the scan)", k[:8], n, chunks, ticks))
			}
			if !want[k] {
				x.Violate("C14|ticks|index-has-unreferenced-key", fmt.Sprintf("key %s", k[:8]))
			}
		}
		for k := range want {
			if keys[k] == 0 {
				x.Violate("C14|ticks|index-misses-referenced-key", fmt.Sprintf("key %s is referenced by a live bundle but is in none of the %d chunks (the uploader's ticker fired %d times during the scan)", k[:8], chunks, ticks))
				break
			}
		}
	}
	e := &lib.Explorer{Sc: sc, PreemptBound: 0, FaultBound: 1, MaxExecs: 50000, Budget: 8 * time.Minute}
	if lib.Thorough() {
		e.FaultBound = 2
	}
	e.Explore(t, rep)
	rep.Set("executions:"+sc.Name, e.Execs)
}

// ---- (b) purge lock
func c14locks(t *testing.T, rep *lib.Report) {
	type actor struct {
		kind string // lock | force | unlock-lock
	}
	for _, actors := range [][]string{{"lock", "lock"}, {"lock", "lock", "lock"}, {"lock", "lock", "force"}, {"lock", "unlock", "lock"}} {
		actors := actors
		sc := &lib.Scenario{Name: "purge-lock " + strings.Join(actors, ","), FreePreempt: true}
		sc.Setup = func(x *lib.Exec) { x.Data["w"] = NewWorld() }
		var phase []lib.ClientFn
		for _, a := range actors {
			a := a
			phase = append(phase, func(x *lib.Exec, id int) error {
				w := x.Data["w"].(*World)
				st := w.Gated(x, id, map[string]func(string, string) bool{"meta": allCalls})
				switch a {
				case "lock":
					return core.PurgeLock(st, core.WithPurgeLogger(nopLogger))
				case "force":
					return core.PurgeLock(st, core.WithPurgeLogger(nopLogger), core.WithPurgeForce(true))
				default:
					return core.PurgeUnlock(st, core.WithPurgeLogger(nopLogger))
				}
			})
		}
		sc.Phases = [][]lib.ClientFn{phase}
		sc.Final = func(x *lib.Exec) {
			w := x.Data["w"].(*World)
			// replay the journal: a non-forced lock may only succeed while no lock exists
			held := false
			locks := 0
			for _, je := range w.Meta.JournalSince(0) {
				if je.Key != "purge.lock" {
					continue
				}
				switch je.Op {
				case "put":
					if je.Existed {
						// only a forced lock may overwrite
						forced := false
						for _, a := range actors {
							if a == "force" {
								forced = true
							}
						}
						if !forced {
							x.Violate("C14|lock|second-lock-acquired-while-held", "a non-forced PurgeLock overwrote an existing lock")
						}
					}
					held = true
					locks++
				case "delete":
					held = false
				}
			}
			oks := 0
			for i, a := range actors {
				if a == "lock" && x.ClientErr[i] == nil {
					oks++
				}
			}
			hasUnlock := false
			for _, a := range actors {
				if a == "unlock" {
					hasUnlock = true
				}
			}
			if !hasUnlock && oks > 1 {
				x.Violate("C14|lock|two-non-forced-locks-succeed", fmt.Sprintf("%d non-forced PurgeLock calls succeeded without any unlock", oks))
			}
			x.SetOutcome(fmt.Sprintf("oks=%d;held=%v", oks, held))
		}
		e := &lib.Explorer{Sc: sc, PreemptBound: -1}
		e.Explore(t, rep)
		rep.Set("executions:"+sc.Name, e.Execs)
	}
}
