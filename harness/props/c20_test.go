package props

import (
	"fmt"
	"math"
	"reflect"
	"strings"
	"testing"
	"time"
	"unicode"

	"github.com/oneconcern/datamon/pkg/model"
	"gopkg.in/yaml.v2"
	"verif/harness/lib"
)

// C20 — metadata paths and descriptors round-trip (E2: exhaustive product over small alphabets).

var c20alphabet = []rune{'a', 'Z', '7', '-', '_', '.', '/', ' ', 'é', '‐', '‿', '€', 'א'} // the last two: a non-ASCII symbol (not a letter) and a letter whose UTF-8 lead byte is not a Latin-1 letter

func c20strings(maxLen int, alphabet []rune) []string {
	out := []string{""}
	prev := []string{""}
	for l := 1; l <= maxLen; l++ {
		var cur []string
		for _, p := range prev {
			for _, r := range alphabet {
				cur = append(cur, p+string(r))
			}
		}
		out = append(out, cur...)
		prev = cur
	}
	return out
}

func c20repoOK(s string) bool {
	if s == "" {
		return false
	}
	for _, c := range s {
		if !(unicode.IsLetter(c) || unicode.IsDigit(c) || unicode.Is(unicode.Hyphen, c)) {
			return false
		}
	}
	return true
}

func c20labelOK(s string) bool {
	if s == "" {
		return false
	}
	for _, c := range s {
		if !(unicode.IsLetter(c) || unicode.IsDigit(c) || unicode.Is(unicode.Hyphen, c) || unicode.Is(unicode.Pc, c)) {
			return false
		}
	}
	return true
}

func c20try(rep *lib.Report, sig string, detail string, f func()) {
	defer func() {
		if r := recover(); r != nil {
			rep.Violate(sig+"|panic", fmt.Sprintf("%s: panic: %v", detail, r), detail)
		}
	}()
	f()
}

func charClass(s string) string {
	multi, bad := false, false
	for _, c := range s {
		if c > 127 {
			multi = true
		}
		if !(unicode.IsLetter(c) || unicode.IsDigit(c) || unicode.Is(unicode.Hyphen, c) || unicode.Is(unicode.Pc, c)) {
			bad = true
		}
	}
	return fmt.Sprintf("multibyte=%v,invalid-char=%v", multi, bad)
}

func TestC20(t *testing.T) {
	rep := lib.NewReport("C20", "exploration")
	defer rep.Finish(t)
	maxLen := 3
	if !lib.Thorough() {
		maxLen = 2
	}
	rep.Rule = fmt.Sprintf("every string of length <=%d over {a,Z,7,-,_,.,/,space,é,U+2010,U+203F,U+20AC (a symbol),U+05D0 (a Hebrew letter)} as repo/label/context/split name; 3 KSUIDs; indices {0,1,9,10,999,1000,2^31,2^32,2^63-1,2^63,2^64-1}: every builder -> GetArchivePathComponents round trip, consumable paths (also for bundle IDs ending in each of the 62 KSUID characters), injectivity over all generated paths, validation vs the documented alphabet predicate, IsGeneratedFile over all <=3-component paths, YAML round trip of the product of representative field values of the 7 descriptor types; distinct = distinct paths / names / descriptors", maxLen)
	all := c20strings(maxLen, c20alphabet)

	// ---- validation
	for _, s := range all {
		s := s
		c20try(rep, "C20|ValidateRepo|"+charClass(s), fmt.Sprintf("ValidateRepo(%q)", s), func() {
			err := model.ValidateRepo(model.RepoDescriptor{Name: s, Description: "d"})
			rep.Eval(1)
			if (err == nil) != c20repoOK(s) {
				rep.Violate(fmt.Sprintf("C20|ValidateRepo|accepts=%v|documented=%v", err == nil, c20repoOK(s)), fmt.Sprintf("repo name %q: err=%v", s, err), s)
			}
		})
		c20try(rep, "C20|ValidateLabel|"+charClass(s), fmt.Sprintf("ValidateLabel(%q)", s), func() {
			err := model.ValidateLabel(model.LabelDescriptor{Name: s, BundleID: "x", Contributors: []model.Contributor{{Name: "a", Email: "a@b.c"}}})
			rep.Eval(1)
			if (err == nil) != c20labelOK(s) {
				rep.Violate(fmt.Sprintf("C20|ValidateLabel|accepts=%v|documented=%v", err == nil, c20labelOK(s)), fmt.Sprintf("label name %q: err=%v", s, err), s)
			}
		})
		rep.Outcome("name|" + s)
	}

	// ---- path round trips over valid names
	var repos, labels []string
	for _, s := range all {
		if c20repoOK(s) {
			repos = append(repos, s)
		}
		if c20labelOK(s) {
			labels = append(labels, s)
		}
	}
	ks := []string{"1VlnyfI4yXNYuZyJpRNnwtFv0wX", "0uk1HdCJ6hUZKDgcxhpJwUl5ZEI", "aWgEPTl1tmebfsQzFP4bxwgy80V"}
	idxs := []uint64{0, 1, 9, 10, 999, 1000, 1 << 31, 1 << 32, math.MaxInt64, 1 << 63, math.MaxUint64}
	seen := map[string]string{}
	record := func(path, what string) {
		if prev, ok := seen[path]; ok && prev != what {
			rep.Violate("C20|paths-coincide", fmt.Sprintf("path %q is generated for both %s and %s", path, prev, what), path)
		}
		seen[path] = what
		rep.Outcome("path|" + path)
	}
	rt := func(kind, path string, want model.ArchivePathComponents) {
		c20try(rep, "C20|parse|"+kind, path, func() {
			got, err := model.GetArchivePathComponents(path)
			rep.Eval(1)
			if err != nil {
				rep.Violate("C20|roundtrip-error|"+kind, fmt.Sprintf("path %q built from %+v does not parse: %v", path, want, err), path)
				return
			}
			if got != want {
				rep.Violate("C20|roundtrip-mismatch|"+kind, fmt.Sprintf("path %q parses to %+v, built from %+v", path, got, want), path)
			}
		})
		record(path, fmt.Sprintf("%s%+v", kind, want))
	}
	// restrict the second-level products to keep the space finite but complete per dimension
	short := func(l []string, n int) []string {
		var o []string
		for _, s := range l {
			if len([]rune(s)) <= n {
				o = append(o, s)
			}
		}
		return o
	}
	for _, r := range repos {
		c20try(rep, "C20|build|repo", r, func() {
			rt("repo", model.GetArchivePathToRepoDescriptor(r), model.ArchivePathComponents{Repo: r, ArchiveFileName: "repo.yaml"})
		})
		c20try(rep, "C20|build|context", r, func() {
			rt("context", model.GetPathToContext(r), model.ArchivePathComponents{Context: r, ArchiveFileName: "context.yaml"})
		})
	}
	for _, r := range short(repos, 2) {
		for _, k := range ks {
			c20try(rep, "C20|build|bundle", r, func() {
				rt("bundle", model.GetArchivePathToBundle(r, k), model.ArchivePathComponents{Repo: r, BundleID: k, ArchiveFileName: "bundle.yaml"})
			})
			for _, i := range idxs {
				c20try(rep, fmt.Sprintf("C20|build|bundle-filelist|index>=2^63=%v", i > math.MaxInt64), fmt.Sprintf("GetArchivePathToBundleFileList(%q,%q,%d)", r, k, i), func() {
					rt("bundle-filelist", model.GetArchivePathToBundleFileList(r, k, i), model.ArchivePathComponents{Repo: r, BundleID: k, ArchiveFileName: fmt.Sprintf("bundle-files-%d.yaml", i)})
				})
			}
			for _, final := range []bool{false, true} {
				c20try(rep, "C20|build|diamond", r, func() {
					p, fn := model.GetArchivePathToInitialDiamond(r, k), "diamond-running.yaml"
					st := model.DiamondInitialized
					if final {
						p, fn, st = model.GetArchivePathToFinalDiamond(r, k), "diamond-done.yaml", model.DiamondDone
					}
					if p2 := model.GetArchivePathToDiamond(r, k, st); p2 != p {
						rep.Violate("C20|diamond-path-builders-disagree", p+" vs "+p2, p)
					}
					if final { // canceled is the other terminal state: it shares the final descriptor path
						if p3 := model.GetArchivePathToDiamond(r, k, model.DiamondCanceled); p3 != p {
							rep.Violate("C20|diamond-path-builders-disagree|canceled", fmt.Sprintf("state canceled: %s, final path %s", p3, p), p)
						}
					}
					rt("diamond", p, model.ArchivePathComponents{Repo: r, DiamondID: k, ArchiveFileName: fn, IsFinalState: final})
				})
			}
		}
		for _, l := range labels {
			c20try(rep, "C20|build|label", r+"/"+l, func() {
				rt("label", model.GetArchivePathToLabel(r, l), model.ArchivePathComponents{Repo: r, LabelName: l, ArchiveFileName: "label.yaml"})
			})
		}
	}
	for _, r := range short(repos, 1) {
		for _, d := range ks[:2] {
			for _, s := range append(short(labels, 2), ks[2]) {
				for _, final := range []bool{false, true} {
					c20try(rep, "C20|build|split", s, func() {
						p, fn := model.GetArchivePathToInitialSplit(r, d, s), "split-running.yaml"
						st := model.SplitRunning
						if final {
							p, fn, st = model.GetArchivePathToFinalSplit(r, d, s), "split-done.yaml", model.SplitDone
						}
						if p2 := model.GetArchivePathToSplit(r, d, s, st); p2 != p {
							rep.Violate("C20|split-path-builders-disagree", p+" vs "+p2, p)
						}
						rt("split", p, model.ArchivePathComponents{Repo: r, DiamondID: d, SplitID: s, ArchiveFileName: fn, IsFinalState: final})
					})
				}
				for _, g := range ks[1:] {
					for _, i := range idxs {
						c20try(rep, "C20|build|split-filelist", s, func() {
							rt("split-filelist", model.GetArchivePathToSplitFileList(r, d, s, g, i), model.ArchivePathComponents{Repo: r, DiamondID: d, SplitID: s, GenerationID: g, ArchiveFileName: fmt.Sprintf("bundle-files-%d.yaml", i)})
						})
					}
				}
			}
		}
	}
	// consumable store paths: the three IDs, and IDs ending in every character of the KSUID alphabet
	cks := append([]string{}, ks...)
	for _, c := range "0123456789ABCDEFGHIJKLMNOPQRSTUVWXYZabcdefghijklmnopqrstuvwxyz" {
		cks = append(cks, ks[0][:len(ks[0])-1]+string(c), ks[1][:len(ks[1])-2]+string(c)+string(c))
	}
	for _, k := range cks {
		c20try(rep, "C20|consumable|descriptor", k, func() {
			p := model.GetConsumablePathToBundle(k)
			info, err := model.GetConsumableStorePathMetadata(p)
			rep.Eval(1)
			if err != nil || info.Type != model.ConsumableStorePathTypeDescriptor || info.BundleID != k {
				rep.Violate("C20|consumable-roundtrip|descriptor", fmt.Sprintf("%q -> %+v %v", p, info, err), p)
			}
			record("consumable:"+p, "descriptor "+k)
		})
		for _, i := range idxs {
			c20try(rep, fmt.Sprintf("C20|consumable|filelist|index>=2^63=%v", i > math.MaxInt64), fmt.Sprintf("GetConsumablePathToBundleFileList(%q,%d)", k, i), func() {
				p := model.GetConsumablePathToBundleFileList(k, i)
				info, err := model.GetConsumableStorePathMetadata(p)
				rep.Eval(1)
				if err != nil || info.Type != model.ConsumableStorePathTypeFileList || info.BundleID != k || info.Index != i {
					rep.Violate("C20|consumable-roundtrip|filelist", fmt.Sprintf("%q -> %+v %v", p, info, err), p)
				}
				record("consumable:"+p, fmt.Sprintf("filelist %s %d", k, i))
			})
		}
	}

	// ---- IsGeneratedFile
	comps := []string{".datamon", ".conflicts", ".checkpoints", ".datamonx", "x.datamon", "a", "..conflicts", ".conflictsx"}
	reserved := map[string]bool{".datamon": true, ".conflicts": true, ".checkpoints": true}
	var paths [][]string
	for _, a := range comps {
		paths = append(paths, []string{a})
		for _, b := range comps {
			paths = append(paths, []string{a, b})
			for _, c := range comps {
				paths = append(paths, []string{a, b, c})
			}
		}
	}
	for _, pc := range paths {
		for _, lead := range []string{"", "/", "./"} {
			p := lead + strings.Join(pc, "/")
			want := reserved[pc[0]]
			c20try(rep, "C20|IsGeneratedFile", p, func() {
				got := model.IsGeneratedFile(p)
				rep.Eval(1)
				if got != want {
					rep.Violate(fmt.Sprintf("C20|IsGeneratedFile|first-component=%s|lead=%q|got=%v", pc[0], lead, got), fmt.Sprintf("IsGeneratedFile(%q)=%v, want %v", p, got, want), p)
				}
			})
			rep.Outcome("gen|" + p)
		}
	}

	// ---- descriptors
	c20descriptors(rep)
	rep.Sample(map[string]interface{}{"path": model.GetArchivePathToSplitFileList("é", ks[0], "a_", ks[1], 1<<63), "name": "‐é"})
	rep.Set("distinct_paths", len(seen))
}

// normalize times (yaml keeps the instant, not the *Location) so that reflect.DeepEqual means "same value".
func c20norm(v reflect.Value) {
	switch v.Kind() {
	case reflect.Ptr, reflect.Interface:
		if !v.IsNil() {
			c20norm(v.Elem())
		}
	case reflect.Struct:
		if v.Type() == reflect.TypeOf(time.Time{}) {
			if v.CanSet() {
				tm := v.Interface().(time.Time)
				v.Set(reflect.ValueOf(tm.UTC()))
			}
			return
		}
		for i := 0; i < v.NumField(); i++ {
			if v.Field(i).CanSet() {
				c20norm(v.Field(i))
			}
		}
	case reflect.Slice:
		if v.Len() == 0 && !v.IsNil() && v.CanSet() {
			v.Set(reflect.Zero(v.Type())) // an empty list and an absent list are the same value
		}
		for i := 0; i < v.Len(); i++ {
			c20norm(v.Index(i))
		}
	}
}

func c20yamlRT(rep *lib.Report, kind string, in interface{}, out interface{}) {
	c20try(rep, "C20|descriptor|"+kind, fmt.Sprintf("%+v", in), func() {
		b, err := yaml.Marshal(in)
		rep.Eval(1)
		if err != nil {
			rep.Violate("C20|descriptor-marshal-error|"+kind, fmt.Sprintf("%+v: %v", in, err), nil)
			return
		}
		if err := yaml.Unmarshal(b, out); err != nil {
			rep.Violate("C20|descriptor-unmarshal-error|"+kind, fmt.Sprintf("%s: %v", b, err), string(b))
			return
		}
		c20norm(reflect.ValueOf(in))
		c20norm(reflect.ValueOf(out))
		if !reflect.DeepEqual(in, out) {
			rep.Violate("C20|descriptor-roundtrip|"+kind, fmt.Sprintf("wrote %+v\nread  %+v\nyaml:\n%s", reflect.ValueOf(in).Elem().Interface(), reflect.ValueOf(out).Elem().Interface(), b), string(b))
		}
		rep.Outcome("desc|" + kind + "|" + string(b))
	})
}

func c20descriptors(rep *lib.Report) {
	strs := []string{"", "plain", "multi\nline: yes\n# not a comment", "ünï©ode ‐ \"quoted\" 'x' - : ? [a] {b}", " leading and trailing ", "~", "null", "true", "0123", "1e3"}
	if !lib.Thorough() {
		strs = []string{"", "plain", "multi\nline: yes\n# not a comment", "ünï©ode \"q\" - : [a]", "null", "0123"}
	}
	times := []time.Time{{}, time.Date(2020, 1, 2, 3, 4, 5, 0, time.UTC), time.Date(2021, 12, 31, 23, 59, 59, 123456789, time.FixedZone("x", -7*3600)), time.Unix(1<<33, 999)}
	contribs := [][]model.Contributor{nil, {{Name: "a", Email: "a@b.c"}}, {{Name: "ü b", Email: "x@y.z"}, {Name: "", Email: ""}}}
	u64 := []uint64{0, 1, math.MaxUint64}
	for _, s := range strs {
		for _, tm := range times {
			for ci, c := range contribs {
				in := &model.RepoDescriptor{Name: s, Description: s, Timestamp: tm}
				if len(c) > 0 {
					in.Contributor = c[0]
				}
				c20yamlRT(rep, "repo", in, &model.RepoDescriptor{})
				c20yamlRT(rep, "label", &model.LabelDescriptor{Name: s, BundleID: s, Timestamp: tm, Contributors: c}, &model.LabelDescriptor{})
				for _, n := range u64 {
					var parents []string
					if ci == 1 {
						parents = []string{s, "p"}
					}
					c20yamlRT(rep, "bundle", &model.BundleDescriptor{LeafSize: uint32(n), ID: s, Message: s, Parents: parents, Timestamp: tm, Contributors: c,
						BundleEntriesFileCount: n, Version: n, Deduplication: s, RunStage: s}, &model.BundleDescriptor{})
					c20yamlRT(rep, "split", &model.SplitDescriptor{SplitID: s, StartTime: tm, EndTime: tm, State: model.SplitState(s), Contributors: c, GenerationID: s, SplitEntriesFileCount: n, Tag: s}, &model.SplitDescriptor{})
					var splits []model.SplitDescriptor
					if ci == 2 {
						splits = []model.SplitDescriptor{{SplitID: s, StartTime: tm, State: model.SplitDone, Contributors: c, SplitEntriesFileCount: n}}
					}
					c20yamlRT(rep, "diamond", &model.DiamondDescriptor{DiamondID: s, StartTime: tm, EndTime: tm, State: model.DiamondState(s), Mode: model.ConflictMode(s), HasConflicts: ci == 1, HasCheckpoints: ci == 2, Tag: s, BundleID: s, Splits: splits}, &model.DiamondDescriptor{})
					c20yamlRT(rep, "filelist", &model.BundleEntries{BundleEntries: []model.BundleEntry{{Hash: s, NameWithPath: s, FileMode: 0o644, Size: n, Timestamp: tm}, {NameWithPath: "b/" + s, Size: 1}}}, &model.BundleEntries{})
					c20yamlRT(rep, "context", &model.Context{Name: s, WAL: s, ReadLog: s, Blob: s, Metadata: s, VMetadata: s, Version: n}, &model.Context{})
				}
			}
		}
	}
}
