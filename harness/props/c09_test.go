package props

import (
	"fmt"
	"testing"
	"time"

	"github.com/oneconcern/datamon/pkg/core"
	"github.com/oneconcern/datamon/pkg/model"
	"verif/harness/lib"
)

// C09 (a) — concurrent creators of one repository name: exactly one succeeds, under all interleavings of their
// metadata store calls (E1, unbounded preemptions).

func c09CreateScenario(names []string) *lib.Scenario {
	sc := &lib.Scenario{Name: fmt.Sprintf("create%v", names), FreePreempt: true}
	sc.Setup = func(x *lib.Exec) { x.Data["w"] = NewWorld() }
	var phase []lib.ClientFn
	for i, name := range names {
		i, name := i, name
		phase = append(phase, func(x *lib.Exec, id int) error {
			w := x.Data["w"].(*World)
			st := w.Gated(x, id, map[string]func(string, string) bool{"meta": allCalls})
			return core.CreateRepo(model.RepoDescriptor{
				Name: name, Description: fmt.Sprintf("creator-%d", i), Timestamp: time.Now(),
				Contributor: model.Contributor{Name: fmt.Sprintf("c%d", i), Email: "c@x.io"},
			}, st)
		})
	}
	sc.Phases = [][]lib.ClientFn{phase}
	sc.Final = func(x *lib.Exec) {
		w := x.Data["w"].(*World)
		winners := map[string][]int{}
		for i, name := range names {
			if x.ClientErr[i] == nil {
				winners[name] = append(winners[name], i)
			}
		}
		out := ""
		for _, name := range uniq(names) {
			ws := winners[name]
			if len(ws) != 1 {
				x.Violate(fmt.Sprintf("C09|create|winners=%d", len(ws)), fmt.Sprintf("repo %q: %d creators succeeded (%v); errors %v", name, len(ws), ws, x.ClientErr))
				continue
			}
			rd, err := core.GetRepo(name, w.Stores())
			if err != nil || rd.Description != fmt.Sprintf("creator-%d", ws[0]) {
				x.Violate("C09|create|descriptor-not-winners", fmt.Sprintf("repo %q: winner %d but stored descriptor %+v err %v", name, ws[0], rd, err))
			}
			out += fmt.Sprintf("%s:%d;", name, ws[0])
		}
		x.SetOutcome(out)
	}
	return sc
}

func uniq(s []string) []string {
	seen := map[string]bool{}
	var out []string
	for _, v := range s {
		if !seen[v] {
			seen[v] = true
			out = append(out, v)
		}
	}
	return out
}

func TestC09(t *testing.T) {
	rep := lib.NewReport("C09", "model_checking")
	defer rep.Finish(t)
	rep.Rule = "(b) histories over repos {a,ab,b} with 0..2 bundles sharing contents, labels, and one bundle of 1001 files, followed by DeleteRepo(a) / RenameRepo(a->c) / RenameRepo(a->ab) / DeleteEntriesFromRepo(a,S) for every S of {p,q,absent}: store diff confined to repository a (+c), other repositories observably unchanged (listings, labels, full downloads), rename preserves ids/entries/labels, delete-files leaves exactly old minus S and every bundle still downloads; (a) all interleavings of the metadata store calls of 2..4 concurrent CreateRepo of one name (+ a prefix-related name); distinct = distinct (scenario, winner) outcomes"
	scs := [][]string{{"a", "a"}, {"a", "a", "a"}, {"a", "a", "ab"}}
	if lib.Thorough() {
		scs = append(scs, []string{"a", "a", "a", "a"}, []string{"a", "ab", "a", "ab"})
	}
	for _, names := range scs {
		e := &lib.Explorer{Sc: c09CreateScenario(names), PreemptBound: -1}
		e.Explore(t, rep)
		rep.Set("create"+fmt.Sprint(names)+"_executions", e.Execs)
	}
	c09bRun(rep)
	c09cFaults(t, rep)
}
