package props

import (
	"bytes"
	"fmt"
	"sort"
	"strings"
	"testing"
	"time"

	"github.com/oneconcern/datamon/pkg/core"
	"github.com/oneconcern/datamon/pkg/model"
	"github.com/segmentio/ksuid"
	"verif/harness/lib"
)

// C10 — squash keeps exactly the requested bundles, intact (E2: exhaustive product of histories x options).

type c10case struct {
	K        int   // committed bundles
	Labels   []int // per bundle: 0 none, 1 plain tag, 2 semver tag, 3 plain tag (sorting before) + semver, 4 semver + plain tag (sorting after)
	LeftPos  int   // -1 none; p: an interrupted upload placed before committed bundle p (K = after the last)
	LeftKind int   // number of index files the interrupted upload had written (1 or 2)
	N        int
	Opt      string // "", "tags", "semver"
	Batch    int    // 0: default listing page size; otherwise core.BatchSize (squash lists bundles and labels in pages)
	Empty    int    // -1: none; i: committed bundle i is an empty commit (no file)
	S3Delete bool   // the metadata stores answer like S3 / localfs: deleting a key that does not exist succeeds
}

func (c c10case) String() string {
	if c.Empty >= 0 || c.S3Delete {
		return fmt.Sprintf("k=%d labels=%v leftover(pos=%d,files=%d) retain=%d opt=%q empty-commit=#%d delete-of-missing-key-succeeds=%v", c.K, c.Labels, c.LeftPos, c.LeftKind, c.N, c.Opt, c.Empty, c.S3Delete)
	}
	if c.Batch > 0 {
		return fmt.Sprintf("k=%d labels=%v leftover(pos=%d,files=%d) retain=%d opt=%q page-size=%d", c.K, c.Labels, c.LeftPos, c.LeftKind, c.N, c.Opt, c.Batch)
	}
	return fmt.Sprintf("k=%d labels=%v leftover(pos=%d,files=%d) retain=%d opt=%q", c.K, c.Labels, c.LeftPos, c.LeftKind, c.N, c.Opt)
}

func c10cases() []c10case {
	var out []c10case
	maxK := 3
	maxN := 2
	if lib.Thorough() {
		maxK, maxN = 4, 3
	}
	for k := 0; k <= maxK; k++ {
		nl := 1
		for i := 0; i < k; i++ {
			nl *= 5
		}
		for lm := 0; lm < nl; lm++ {
			labels := make([]int, k)
			m := lm
			for i := range labels {
				labels[i] = m % 5
				m /= 5
			}
			for pos := -1; pos <= k; pos++ {
				kinds := []int{1, 2}
				if pos == -1 {
					kinds = []int{0}
				}
				for _, lk := range kinds {
					for n := 1; n <= maxN; n++ {
						if lm == 0 && k >= 1 {
							// one of the committed bundles is an empty commit; on both kinds of store
							for e := 0; e < k; e++ {
								for _, s3 := range []bool{false, true} {
									out = append(out, c10case{K: k, Labels: labels, LeftPos: pos, LeftKind: lk, N: n, Empty: e, S3Delete: s3})
								}
							}
						}
						for _, opt := range []string{"", "tags", "semver"} {
							if opt != "" && lm == 0 {
								continue // no label at all: same as no option
							}
							out = append(out, c10case{K: k, Labels: labels, LeftPos: pos, LeftKind: lk, N: n, Opt: opt, Empty: -1})
							if k >= 2 && (lib.Thorough() || k == maxK) {
								// listings of more than one page (page size 2)
								out = append(out, c10case{K: k, Labels: labels, LeftPos: pos, LeftKind: lk, N: n, Opt: opt, Batch: 2, Empty: -1})
								if pos >= 0 && lk == 1 {
									// page size 1: the interrupted upload fills a listing page of its own
									out = append(out, c10case{K: k, Labels: labels, LeftPos: pos, LeftKind: lk, N: n, Opt: opt, Batch: 1, Empty: -1})
								}
							}
						}
					}
				}
			}
		}
	}
	return out
}

func c10run(t *testing.T, rep *lib.Report, c c10case) {
	lib.Bubble(t, func() {
		w := NewWorld()
		w.Blob.NoJournal = true
		w.Meta.DeleteMissingOK, w.VMeta.DeleteMissingOK = c.S3Delete, c.S3Delete
		st := w.Stores()
		_ = mkRepo(st, "r")
		var ids []string
		files := map[string]map[string][]byte{}
		labels := map[string]string{} // label -> bundle
		leftID := ""
		left := func() {
			id, _ := ksuid.NewRandom()
			leftID = id.String()
			for i := 0; i < c.LeftKind; i++ {
				w.Meta.RawSet(model.GetArchivePathToBundleFileList("r", leftID, uint64(i)), []byte("BundleEntries: []\n"))
			}
			time.Sleep(time.Second)
		}
		for i := 0; i < c.K; i++ {
			if c.LeftPos == i {
				left()
			}
			f := map[string][]byte{"common": []byte("same"), fmt.Sprintf("f%d", i): []byte(fmt.Sprintf("content-%d", i))}
			if c.Empty == i {
				f = map[string][]byte{}
			}
			b, err := uploadFiles(st, "r", f, c11L, 0)
			if err != nil {
				panic(err)
			}
			ids = append(ids, b.BundleID)
			files[b.BundleID] = f
			// label names are listed in lexical order: cover a plain tag listed before and after the semver tag of the
			// same bundle (an implementation that lets the last label seen decide would pass one order only)
			if c.Labels[i] == 1 || c.Labels[i] == 3 {
				labels["tag"+strings.Repeat("x", i)] = b.BundleID // tag, tagx, tagxx: each name is a prefix of the next bundle's
			}
			if c.Labels[i] >= 2 {
				labels[fmt.Sprintf("v1.%d.0", i)] = b.BundleID
			}
			if c.Labels[i] == 4 {
				labels[fmt.Sprintf("zeta%d", i)] = b.BundleID
			}
			time.Sleep(time.Second)
		}
		if c.LeftPos == c.K {
			left()
		}
		for l, id := range labels {
			if err := setLabel(st, "r", l, id); err != nil {
				panic(err)
			}
		}
		opts := []core.Option{core.WithRetainNLatest(c.N)}
		if c.Batch > 0 {
			opts = append(opts, core.BatchSize(c.Batch))
		}
		switch c.Opt {
		case "tags":
			opts = append(opts, core.WithRetainTags(true))
		case "semver":
			opts = append(opts, core.WithRetainSemverTags(true))
		}
		rp := map[string]interface{}{"case": c.String()}
		shape := fmt.Sprintf("opt=%s|leftover=%v", c.Opt, map[bool]string{true: "none", false: "present"}[c.LeftPos < 0])
		if c.LeftPos >= 0 {
			switch {
			case c.LeftPos == c.K:
				shape += "-newest"
			case c.LeftPos == 0:
				shape += "-oldest"
			default:
				shape += "-between"
			}
		}
		var err error
		returned := lib.Await(func() {
			defer func() {
				if r := recover(); r != nil {
					err = fmt.Errorf("panic: %v", r)
				}
			}()
			err = core.RepoSquash(st, "r", opts...)
		}, time.Hour)
		rep.Eval(1)
		if !returned {
			rep.Violate("C10|squash-hangs|"+shape, c.String(), rp)
			return
		}
		if err != nil {
			rep.Violate("C10|squash-error|"+shape, c.String()+": "+err.Error(), rp)
			return
		}
		// specification
		keep := map[string]bool{}
		for i := len(ids) - 1; i >= 0 && i >= len(ids)-c.N; i-- {
			keep[ids[i]] = true
		}
		for l, id := range labels {
			semver := strings.HasPrefix(l, "v1.")
			if c.Opt == "tags" || (c.Opt == "semver" && semver) {
				keep[id] = true
			}
		}
		bs, lerr := core.ListBundles("r", st)
		if lerr != nil {
			rep.Violate("C10|list-error-after-squash|"+shape, c.String()+": "+lerr.Error(), rp)
			return
		}
		got := map[string]bool{}
		for _, b := range bs {
			got[b.ID] = true
		}
		if len(ids) > 0 && !got[ids[len(ids)-1]] {
			rep.Violate("C10|most-recent-committed-bundle-removed|"+shape, fmt.Sprintf("%s: bundles after squash %v, most recent committed %s", c, keysOfBool(got), ids[len(ids)-1]), rp)
		}
		for i, id := range ids {
			switch {
			case keep[id] && !got[id]:
				if i != len(ids)-1 {
					rep.Violate("C10|bundle-to-keep-removed|"+shape, fmt.Sprintf("%s: committed bundle #%d should be kept", c, i), rp)
				}
			case !keep[id] && got[id]:
				rep.Violate("C10|bundle-to-remove-kept|"+shape, fmt.Sprintf("%s: committed bundle #%d should have been removed", c, i), rp)
			}
			if got[id] {
				dest := lib.NewMemStore("dest")
				dest.NoCRC, dest.NoJournal = true, true
				if _, derr := downloadBundle(st, "r", id, dest, 0); derr != nil {
					rep.Violate("C10|kept-bundle-not-downloadable|"+shape, fmt.Sprintf("%s: bundle #%d: %v", c, i, derr), rp)
				} else {
					c04compare(rep, "C10|kept-bundle-content|"+shape, c.String(), dest, files[id], rp)
				}
			} else {
				for _, k := range w.Meta.RawKeys() {
					if strings.HasPrefix(k, "bundles/r/"+id+"/") {
						rep.Violate("C10|removed-bundle-leaves-metadata|"+shape, fmt.Sprintf("%s: %s still exists", c, k), rp)
						break
					}
				}
			}
		}
		ls, _ := core.ListLabels("r", st)
		gotL := map[string]string{}
		for _, l := range ls {
			gotL[l.Name] = l.BundleID
		}
		for l, id := range labels {
			switch {
			case got[id] && gotL[l] != id:
				rep.Violate("C10|label-of-kept-bundle-lost|"+shape, fmt.Sprintf("%s: label %s", c, l), rp)
			case !got[id] && gotL[l] != "":
				rep.Violate("C10|label-of-removed-bundle-kept|"+shape, fmt.Sprintf("%s: label %s still points to removed bundle", c, l), rp)
			}
		}
		rep.Outcome(c.String())
	})
}

func keysOfBool(m map[string]bool) []string {
	var o []string
	for k := range m {
		o = append(o, k)
	}
	sort.Strings(o)
	return o
}

func TestC10(t *testing.T) {
	rep := lib.NewReport("C10", "model_checking")
	defer rep.Finish(t)
	cases := c10cases()
	rep.Rule = "exhaustive product: 0..4 (quick 3) committed bundles one fake second apart x per-bundle labels in {none, plain tag, semver tag, plain tag listed before + semver, semver + plain tag listed after} x an interrupted upload (1 or 2 index files written, no descriptor) at every position (none/before/between/after) x retain-N in 1..3 (quick 2) x {no option, retain-tags, retain-semver-tags} x listing page size {default, 2, and 1 when there is an interrupted upload: it then fills a page of its own (quick: for the largest histories)}; plus, for unlabelled histories, each committed bundle in turn being an empty commit, on stores where deleting a missing key fails (GCS) and where it succeeds (S3, localfs); real RepoSquash in a fake-clock bubble; oracle: kept = N most recent committed + labelled per option, the rest and their labels gone (no metadata left), kept bundles download unchanged, most recent committed bundle always kept; plus squash (retain 1, with/without a leftover newer than every bundle, with/without retain-tags) under a single transient failure at EVERY metadata call: bundles to keep are never removed and stay downloadable whatever squash reports, a reported success means exactly the specified set; distinct = distinct cases"
	parent := lib.RunCases(t, rep, "TestC10", len(cases), 0, 120*time.Second, func(i int) {
		c10run(t, rep, cases[i])
		rep.AddStates(1, 1, 1)
	}, func(i int, how, output string) {
		rep.Violate("C10|worker-"+strings.SplitN(how, ":", 2)[0], fmt.Sprintf("%s: worker %s: %s", cases[i], how, output), map[string]interface{}{"case": cases[i].String()})
	})
	if parent {
		rep.Set("cases", len(cases))
		rep.Sample(map[string]interface{}{"case": cases[len(cases)/2].String()})
		c10faults(t, rep)
	}
}

// ---- squash under a single transient store failure (E1, fault enumeration) ---------------------------------

type c10fworld struct {
	w      *World
	ids    []string
	files  map[string]map[string][]byte
	labels map[string]string
}

func c10faults(t *testing.T, rep *lib.Report) {
	gates := map[string]func(string, string) bool{"meta": allCalls, "vmeta": allCalls}
	for _, cfg := range []struct {
		leftover bool
		opt      string
	}{{false, ""}, {true, ""}, {true, "tags"}} {
		cfg := cfg
		sc := &lib.Scenario{Name: fmt.Sprintf("squash-under-fault leftover=%v opt=%q", cfg.leftover, cfg.opt)}
		sc.Setup = func(x *lib.Exec) {
			fw := &c10fworld{w: NewWorld(), files: map[string]map[string][]byte{}, labels: map[string]string{}}
			fw.w.Blob.NoJournal = true
			st := fw.w.Stores()
			_ = mkRepo(st, "r")
			for i := 0; i < 3; i++ {
				f := map[string][]byte{"common": []byte("same"), fmt.Sprintf("f%d", i): []byte(fmt.Sprintf("content-%d", i))}
				b, err := uploadFiles(st, "r", f, c11L, 0)
				if err != nil {
					panic(err)
				}
				fw.ids = append(fw.ids, b.BundleID)
				fw.files[b.BundleID] = f
				time.Sleep(time.Second)
			}
			if err := setLabel(st, "r", "tag0", fw.ids[0]); err != nil {
				panic(err)
			}
			fw.labels["tag0"] = fw.ids[0]
			if err := setLabel(st, "r", "tag", fw.ids[1]); err != nil { // a label of a removed bundle whose name is a prefix of a kept one's
				panic(err)
			}
			if cfg.leftover { // an upload interrupted after its index files, more recent than every committed bundle
				id, _ := ksuid.NewRandom()
				fw.w.Meta.RawSet(model.GetArchivePathToBundleFileList("r", id.String(), 0), []byte("BundleEntries: []\n"))
				time.Sleep(time.Second)
			}
			x.Data["fw"] = fw
		}
		sc.Phases = [][]lib.ClientFn{{func(x *lib.Exec, id int) error {
			fw := x.Data["fw"].(*c10fworld)
			opts := []core.Option{core.WithRetainNLatest(1)}
			if cfg.opt == "tags" {
				opts = append(opts, core.WithRetainTags(true))
			}
			return noPanic(x, func() error { return core.RepoSquash(fw.w.Gated(x, id, gates), "r", opts...) })
		}}}
		sc.Faults = transientFaults(0)
		sc.Final = func(x *lib.Exec) {
			fw := x.Data["fw"].(*c10fworld)
			site := faultClass(x)
			shape := fmt.Sprintf("leftover=%v|opt=%s", cfg.leftover, cfg.opt)
			if x.Hung {
				x.Violate("C10|under-fault|hang|"+shape, "squash never returned under "+site)
				return
			}
			err := x.ClientErr[0]
			x.SetOutcome(site + ";" + errTag(err))
			if p, ok := x.Data["panic"].(string); ok {
				x.Violate("C10|under-fault|panic|"+shape, fmt.Sprintf("squash panicked under %s: %s", site, p))
			}
			if site == "none" && err != nil {
				x.Violate("C10|under-fault|error-without-fault|"+shape, err.Error())
				return
			}
			st := fw.w.Stores()
			keep := map[string]bool{fw.ids[2]: true}
			if cfg.opt == "tags" {
				keep[fw.ids[0]], keep[fw.ids[1]] = true, true
			}
			bs, lerr := core.ListBundles("r", st)
			if lerr != nil {
				x.Violate("C10|under-fault|list-error-after-squash|"+shape, lerr.Error())
				return
			}
			got := map[string]bool{}
			for _, b := range bs {
				got[b.ID] = true
			}
			for i, id := range fw.ids {
				switch {
				case keep[id] && !got[id]:
					sig := "bundle-to-keep-removed"
					if i == 2 {
						sig = "most-recent-committed-bundle-removed"
					}
					x.Violate("C10|under-fault|"+sig+"|"+shape, fmt.Sprintf("squash (result: %v) under %s removed committed bundle #%d", err, site, i))
				case !keep[id] && got[id] && err == nil:
					x.Violate("C10|under-fault|success-but-bundle-to-remove-kept|"+shape, fmt.Sprintf("squash returned nil under %s but kept bundle #%d", site, i))
				}
				if got[id] {
					dest := lib.NewMemStore("dest")
					dest.NoCRC, dest.NoJournal = true, true
					if _, derr := downloadBundle(st, "r", id, dest, 0); derr != nil {
						if keep[id] || err == nil {
							x.Violate("C10|under-fault|listed-bundle-not-downloadable|"+shape, fmt.Sprintf("squash (result: %v) under %s: bundle #%d: %v", err, site, i, derr))
						}
					} else {
						snap := dest.Snapshot()
						for n, d := range fw.files[id] {
							if !bytes.Equal(snap[n], d) {
								x.Violate("C10|under-fault|kept-bundle-content|"+shape, fmt.Sprintf("under %s: bundle #%d file %s differs", site, i, n))
							}
						}
					}
				}
			}
			if got[fw.ids[0]] && keep[fw.ids[0]] {
				if l, gerr := getLabel(st, "r", "tag0"); gerr != nil || l != fw.ids[0] {
					x.Violate("C10|under-fault|label-of-kept-bundle-lost|"+shape, fmt.Sprintf("under %s: tag0 resolves to %q (%v)", site, l, gerr))
				}
			}
		}
		e := &lib.Explorer{Sc: sc, PreemptBound: 0, FaultBound: 1, MaxExecs: 50000, Budget: 8 * time.Minute}
		e.Explore(t, rep)
		rep.Set("executions:"+sc.Name, e.Execs)
	}
}
