package props

import (
	"fmt"
	"sort"
	"strings"
	"testing"
	"time"

	"github.com/oneconcern/datamon/pkg/core"
	"github.com/oneconcern/datamon/pkg/model"
	"github.com/segmentio/ksuid"
	"verif/harness/lib"
)

// C10 — squash keeps exactly the requested bundles, intact (E2: exhaustive product of histories x options).

type c10case struct {
	K        int   // committed bundles
	Labels   []int // per bundle: 0 none, 1 plain tag, 2 semver tag, 3 plain tag (sorting before) + semver, 4 semver + plain tag (sorting after)
	LeftPos  int   // -1 none; p: an interrupted upload placed before committed bundle p (K = after the last)
	LeftKind int   // number of index files the interrupted upload had written (1 or 2)
	N        int
	Opt      string // "", "tags", "semver"
}

func (c c10case) String() string {
	return fmt.Sprintf("k=%d labels=%v leftover(pos=%d,files=%d) retain=%d opt=%q", c.K, c.Labels, c.LeftPos, c.LeftKind, c.N, c.Opt)
}

func c10cases() []c10case {
	var out []c10case
	maxK := 3
	maxN := 2
	if lib.Thorough() {
		maxK, maxN = 4, 3
	}
	for k := 0; k <= maxK; k++ {
		nl := 1
		for i := 0; i < k; i++ {
			nl *= 5
		}
		for lm := 0; lm < nl; lm++ {
			labels := make([]int, k)
			m := lm
			for i := range labels {
				labels[i] = m % 5
				m /= 5
			}
			for pos := -1; pos <= k; pos++ {
				kinds := []int{1, 2}
				if pos == -1 {
					kinds = []int{0}
				}
				for _, lk := range kinds {
					for n := 1; n <= maxN; n++ {
						for _, opt := range []string{"", "tags", "semver"} {
							if opt != "" && lm == 0 {
								continue // no label at all: same as no option
							}
							out = append(out, c10case{K: k, Labels: labels, LeftPos: pos, LeftKind: lk, N: n, Opt: opt})
						}
					}
				}
			}
		}
	}
	return out
}

func c10run(t *testing.T, rep *lib.Report, c c10case) {
	lib.Bubble(t, func() {
		w := NewWorld()
		w.Blob.NoJournal = true
		st := w.Stores()
		_ = mkRepo(st, "r")
		var ids []string
		files := map[string]map[string][]byte{}
		labels := map[string]string{} // label -> bundle
		leftID := ""
		left := func() {
			id, _ := ksuid.NewRandom()
			leftID = id.String()
			for i := 0; i < c.LeftKind; i++ {
				w.Meta.RawSet(model.GetArchivePathToBundleFileList("r", leftID, uint64(i)), []byte("BundleEntries: []\n"))
			}
			time.Sleep(time.Second)
		}
		for i := 0; i < c.K; i++ {
			if c.LeftPos == i {
				left()
			}
			f := map[string][]byte{"common": []byte("same"), fmt.Sprintf("f%d", i): []byte(fmt.Sprintf("content-%d", i))}
			b, err := uploadFiles(st, "r", f, c11L, 0)
			if err != nil {
				panic(err)
			}
			ids = append(ids, b.BundleID)
			files[b.BundleID] = f
			// label names are listed in lexical order: cover a plain tag listed before and after the semver tag of the
			// same bundle (an implementation that lets the last label seen decide would pass one order only)
			if c.Labels[i] == 1 || c.Labels[i] == 3 {
				labels[fmt.Sprintf("tag%d", i)] = b.BundleID
			}
			if c.Labels[i] >= 2 {
				labels[fmt.Sprintf("v1.%d.0", i)] = b.BundleID
			}
			if c.Labels[i] == 4 {
				labels[fmt.Sprintf("zeta%d", i)] = b.BundleID
			}
			time.Sleep(time.Second)
		}
		if c.LeftPos == c.K {
			left()
		}
		for l, id := range labels {
			if err := setLabel(st, "r", l, id); err != nil {
				panic(err)
			}
		}
		opts := []core.Option{core.WithRetainNLatest(c.N)}
		switch c.Opt {
		case "tags":
			opts = append(opts, core.WithRetainTags(true))
		case "semver":
			opts = append(opts, core.WithRetainSemverTags(true))
		}
		rp := map[string]interface{}{"case": c.String()}
		shape := fmt.Sprintf("opt=%s|leftover=%v", c.Opt, map[bool]string{true: "none", false: "present"}[c.LeftPos < 0])
		if c.LeftPos >= 0 {
			switch {
			case c.LeftPos == c.K:
				shape += "-newest"
			case c.LeftPos == 0:
				shape += "-oldest"
			default:
				shape += "-between"
			}
		}
		var err error
		returned := lib.Await(func() {
			defer func() {
				if r := recover(); r != nil {
					err = fmt.Errorf("panic: %v", r)
				}
			}()
			err = core.RepoSquash(st, "r", opts...)
		}, time.Hour)
		rep.Eval(1)
		if !returned {
			rep.Violate("C10|squash-hangs|"+shape, c.String(), rp)
			return
		}
		if err != nil {
			rep.Violate("C10|squash-error|"+shape, c.String()+": "+err.Error(), rp)
			return
		}
		// specification
		keep := map[string]bool{}
		for i := len(ids) - 1; i >= 0 && i >= len(ids)-c.N; i-- {
			keep[ids[i]] = true
		}
		for l, id := range labels {
			semver := strings.HasPrefix(l, "v1.")
			if c.Opt == "tags" || (c.Opt == "semver" && semver) {
				keep[id] = true
			}
		}
		bs, lerr := core.ListBundles("r", st)
		if lerr != nil {
			rep.Violate("C10|list-error-after-squash|"+shape, c.String()+": "+lerr.Error(), rp)
			return
		}
		got := map[string]bool{}
		for _, b := range bs {
			got[b.ID] = true
		}
		if len(ids) > 0 && !got[ids[len(ids)-1]] {
			rep.Violate("C10|most-recent-committed-bundle-removed|"+shape, fmt.Sprintf("%s: bundles after squash %v, most recent committed %s", c, keysOfBool(got), ids[len(ids)-1]), rp)
		}
		for i, id := range ids {
			switch {
			case keep[id] && !got[id]:
				if i != len(ids)-1 {
					rep.Violate("C10|bundle-to-keep-removed|"+shape, fmt.Sprintf("%s: committed bundle #%d should be kept", c, i), rp)
				}
			case !keep[id] && got[id]:
				rep.Violate("C10|bundle-to-remove-kept|"+shape, fmt.Sprintf("%s: committed bundle #%d should have been removed", c, i), rp)
			}
			if got[id] {
				dest := lib.NewMemStore("dest")
				dest.NoCRC, dest.NoJournal = true, true
				if _, derr := downloadBundle(st, "r", id, dest, 0); derr != nil {
					rep.Violate("C10|kept-bundle-not-downloadable|"+shape, fmt.Sprintf("%s: bundle #%d: %v", c, i, derr), rp)
				} else {
					c04compare(rep, "C10|kept-bundle-content|"+shape, c.String(), dest, files[id], rp)
				}
			} else {
				for _, k := range w.Meta.RawKeys() {
					if strings.HasPrefix(k, "bundles/r/"+id+"/") {
						rep.Violate("C10|removed-bundle-leaves-metadata|"+shape, fmt.Sprintf("%s: %s still exists", c, k), rp)
						break
					}
				}
			}
		}
		ls, _ := core.ListLabels("r", st)
		gotL := map[string]string{}
		for _, l := range ls {
			gotL[l.Name] = l.BundleID
		}
		for l, id := range labels {
			switch {
			case got[id] && gotL[l] != id:
				rep.Violate("C10|label-of-kept-bundle-lost|"+shape, fmt.Sprintf("%s: label %s", c, l), rp)
			case !got[id] && gotL[l] != "":
				rep.Violate("C10|label-of-removed-bundle-kept|"+shape, fmt.Sprintf("%s: label %s still points to removed bundle", c, l), rp)
			}
		}
		rep.Outcome(c.String())
	})
}

func keysOfBool(m map[string]bool) []string {
	var o []string
	for k := range m {
		o = append(o, k)
	}
	sort.Strings(o)
	return o
}

func TestC10(t *testing.T) {
	rep := lib.NewReport("C10", "model_checking")
	defer rep.Finish(t)
	cases := c10cases()
	rep.Rule = "exhaustive product: 0..4 (quick 3) committed bundles one fake second apart x per-bundle labels in {none, plain tag, semver tag, plain tag listed before + semver, semver + plain tag listed after} x an interrupted upload (1 or 2 index files written, no descriptor) at every position (none/before/between/after) x retain-N in 1..3 (quick 2) x {no option, retain-tags, retain-semver-tags}; real RepoSquash in a fake-clock bubble; oracle: kept = N most recent committed + labelled per option, the rest and their labels gone (no metadata left), kept bundles download unchanged, most recent committed bundle always kept; distinct = distinct cases"
	parent := lib.RunCases(t, rep, "TestC10", len(cases), 0, 120*time.Second, func(i int) {
		c10run(t, rep, cases[i])
		rep.AddStates(1, 1, 1)
	}, func(i int, how, output string) {
		rep.Violate("C10|worker-"+strings.SplitN(how, ":", 2)[0], fmt.Sprintf("%s: worker %s: %s", cases[i], how, output), map[string]interface{}{"case": cases[i].String()})
	})
	if parent {
		rep.Set("cases", len(cases))
		rep.Sample(map[string]interface{}{"case": cases[len(cases)/2].String()})
	}
}
