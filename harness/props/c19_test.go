package props

import (
	"context"
	"fmt"
	"sort"
	"strings"
	"testing"
	"time"

	"github.com/oneconcern/datamon/pkg/model"
	"github.com/oneconcern/datamon/pkg/wal"
	"github.com/segmentio/ksuid"
	"verif/harness/lib"
)

// C19 — the write-ahead log returns what was appended, in token order.
// E2 (in a bubble): all histories of <=3 Adds over a payload alphabet with a clock-tick choice between steps.
// E1: 2..3 concurrent appenders, Touch/GetAttr/Put gated, all interleavings x tick placements.
// After every history: ListEntries from every issued token and from synthetic tokens, max in {1,2,3,1000}.

var c19payloads = map[string]string{
	"empty":    "",
	"a":        "a",
	"twolines": "line one\nline two\n",
	"yamlish":  "token: x\npayload: y\n",
	"big":      strings.Repeat("0123456789abcdef", 94), // 1504 bytes
}

type c19add struct {
	Token   string
	Payload string
	Start   time.Time
	End     time.Time
	Err     error
}

func c19backdate(tok string) string {
	k, err := ksuid.Parse(tok)
	if err != nil {
		return ""
	}
	old, _ := ksuid.FromParts(k.Time().Add(-20*time.Minute), make([]byte, 16))
	return old.String()
}

// c19check runs the listing battery and the token oracle on a finished history. viol reports a violation.
func c19check(adds []c19add, mutable, walStore *lib.MemStore, tag string, viol func(sig, detail string)) string {
	ctx := context.Background()
	var ok []c19add
	for _, a := range adds {
		if a.Err != nil {
			viol("C19|add-error|"+tag, fmt.Sprintf("Add(%q) failed: %v", a.Payload, a.Err))
			continue
		}
		ok = append(ok, a)
	}
	seen := map[string]bool{}
	for _, a := range ok {
		if seen[a.Token] {
			viol("C19|duplicate-token|"+tag, "token "+a.Token+" issued twice")
		}
		seen[a.Token] = true
		if _, err := ksuid.Parse(a.Token); err != nil {
			viol("C19|token-not-ksuid|"+tag, a.Token)
		}
	}
	for _, a := range ok {
		for _, b := range ok {
			if a.End.Before(b.Start) && a.End.Unix() < b.Start.Unix() && !(a.Token < b.Token) {
				viol("C19|token-order|"+tag, fmt.Sprintf("Add returning at %s got %s, a later Add starting at %s got %s", a.End.Format("15:04:05"), a.Token, b.Start.Format("15:04:05"), b.Token))
			}
		}
	}
	sort.Slice(ok, func(i, j int) bool { return ok[i].Token < ok[j].Token })
	// listing battery
	froms := map[string]bool{}
	for _, a := range ok {
		froms[a.Token] = true
		if k, err := ksuid.Parse(a.Token); err == nil {
			for _, d := range []time.Duration{-time.Second, time.Second, 15 * time.Minute, 20*time.Minute - time.Second, 20 * time.Minute, 20*time.Minute + time.Second, 30 * time.Minute, -30 * time.Minute} {
				if s, err := ksuid.FromParts(k.Time().Add(d), make([]byte, 16)); err == nil {
					froms[s.String()] = true
				}
			}
		}
	}
	var fl []string
	for f := range froms {
		fl = append(fl, f)
	}
	sort.Strings(fl)
	w := wal.New(mutable, walStore, wal.Logger(nopLogger))
	listings := 0
	for _, from := range fl {
		old := c19backdate(from)
		var want []c19add
		for _, a := range ok {
			if a.Token >= old {
				want = append(want, a)
			}
		}
		for _, max := range []int{1, 2, 3, 1000} {
			exp := want
			if len(exp) > max {
				exp = exp[:max]
			}
			var got []model.Entry
			var err error
			var panicked interface{}
			returned := lib.Await(func() {
				defer func() { panicked = recover() }()
				got, _, err = w.ListEntries(ctx, from, max)
			}, time.Hour)
			listings++
			shape := "n=0"
			if len(exp) == 1 {
				shape = "n=1"
			} else if len(exp) > 1 {
				shape = "n>1"
			}
			switch {
			case panicked != nil:
				viol("C19|list-panic|"+shape+"|"+tag, fmt.Sprintf("ListEntries(from=%s,max=%d) panicked: %v", from, max, panicked))
				w = wal.New(mutable, walStore, wal.Logger(nopLogger))
			case !returned:
				viol("C19|list-hangs|"+shape+"|"+tag, fmt.Sprintf("ListEntries(from=%s,max=%d) never returns (want %d entries)", from, max, len(exp)))
				w = wal.New(mutable, walStore, wal.Logger(nopLogger))
			case err != nil:
				viol("C19|list-error|"+shape+"|"+tag, fmt.Sprintf("ListEntries(from=%s,max=%d): %v", from, max, err))
			default:
				if max == 1000 {
					// look-back by append time: an entry whose append started within 20 minutes before the start token's
					// time must be listed, whatever time its own token carries
					if k, perr := ksuid.Parse(from); perr == nil {
						inList := map[string]bool{}
						for _, g := range got {
							inList[g.Token] = true
						}
						for _, a := range ok {
							if a.Start.Unix() >= k.Time().Unix()-20*60 && !inList[a.Token] {
								viol("C19|entry-appended-in-look-back-window-not-listed|"+tag, fmt.Sprintf("ListEntries(from=%s [%s], max=%d) misses the entry appended at %s (token %s): it was appended less than 20 minutes before the start token's time", from, k.Time().UTC().Format("15:04:05"), max, a.Start.UTC().Format("15:04:05"), a.Token))
								break
							}
						}
					}
				}
				if len(got) != len(exp) {
					viol("C19|list-count|"+shape+"|"+tag, fmt.Sprintf("ListEntries(from=%s,max=%d) returned %d entries, want %d", from, max, len(got), len(exp)))
					continue
				}
				for i := range got {
					if got[i].Token != exp[i].Token {
						viol("C19|list-token|"+shape+"|"+tag, fmt.Sprintf("ListEntries(from=%s,max=%d)[%d].Token=%q, want %q", from, max, i, got[i].Token, exp[i].Token))
						break
					}
					if got[i].Payload != exp[i].Payload {
						kind := "payload-altered"
						if len(exp[i].Payload) > 1024 {
							kind = "payload-altered-over-1KiB"
						}
						viol("C19|list-"+kind+"|"+tag, fmt.Sprintf("ListEntries(from=%s,max=%d)[%d].Payload=%q (len %d), appended %q (len %d)", from, max, i, trunc(got[i].Payload), len(got[i].Payload), trunc(exp[i].Payload), len(exp[i].Payload)))
						break
					}
				}
			}
		}
	}
	return fmt.Sprintf("adds=%d;listings=%d", len(ok), listings)
}

func trunc(s string) string {
	if len(s) > 40 {
		return s[:40] + "…"
	}
	return s
}

func TestC19(t *testing.T) {
	rep := lib.NewReport("C19", "model_checking")
	defer rep.Finish(t)
	// the log's reader goroutines panic on their own on some defects: run the exploration in a worker process
	lib.Isolated(t, rep, "TestC19", 20*time.Minute, func(journal func(string)) { c19body(t, rep, journal) }, func(last, output string) {
		phase := "sequential"
		if strings.Contains(last, "concurrent") {
			phase = "concurrent"
		}
		reason := output
		if i := strings.Index(output, "panic:"); i >= 0 {
			reason = output[i:min2(i+400, len(output))]
		}
		rep.Violate("C19|process-dies|"+phase, fmt.Sprintf("worker %s: %s", last, reason), last)
	})
}

func c19body(t *testing.T, rep *lib.Report, journal func(string)) {
	rep.Rule = "sequential: all histories of <=3 Add over payloads {empty, a, two lines, YAML-looking, 1504 bytes} (quick: the third is always 'a') x a gap of 0 / 0.5 s / 1 s / 25 min between steps, starting 600 ms into a second, real wal.WAL over the reference store inside a synctest bubble; concurrent: 2 (thorough 3) appenders with Touch/GetAttr/Put gated, all interleavings + tick placements; after each history ListEntries from every issued token and synthetic tokens (±1s, +15min, +20min-1s, +20min, +20min+1s, ±30min: inside, at the edges of and beyond the 20-minute look-back window) x max in {1,2,3,1000}; oracle: unique KSUID tokens ordered across seconds, listing = appended entries with token >= back-dated start and includes every entry whose append started within 20 minutes before the start token's time, token order, payload byte-identical; plus three appends one second apart with every store call of Add a fault point (transient error before / after / after-reading-the-body on writes, before on reads; one fault per execution): an acknowledged entry is listed with its payload unchanged and no listed payload is one that was never appended; distinct = distinct histories/outcomes"
	names := []string{"empty", "a", "twolines", "yamlish", "big"}
	// ---- sequential histories
	var hist [][]string
	var gen func(h []string)
	gen = func(h []string) {
		if len(h) > 0 {
			hist = append(hist, append([]string(nil), h...))
		}
		if len(h) == 3 {
			return
		}
		for _, n := range names {
			if len(h) == 2 && !lib.Thorough() && n != "a" {
				continue // quick: the third append always carries the payload "a"
			}
			gen(append(h, n))
		}
	}
	gen(nil)
	// same instant / half a second later (the history starts 600 ms into a second, so this crosses a second boundary with
	// less than a second elapsed) / a full second later / idle for longer than the look-back window
	gaps := []time.Duration{0, 500 * time.Millisecond, time.Second, 25 * time.Minute}
	for _, h := range hist {
		nt := 1
		for i := 1; i < len(h); i++ {
			nt *= len(gaps)
		}
		for ticks := 0; ticks < nt; ticks++ {
			h, ticks := h, ticks
			journal(fmt.Sprintf("sequential history %v ticks=%d", h, ticks))
			lib.Bubble(t, func() {
				mutable, ws := lib.NewMemStore("mutable"), lib.NewMemStore("wal")
				w := wal.New(mutable, ws, wal.Logger(nopLogger))
				time.Sleep(600 * time.Millisecond)
				var adds []c19add
				tk := ticks
				for i, n := range h {
					if i > 0 {
						if g := gaps[tk%len(gaps)]; g > 0 {
							time.Sleep(g)
						}
						tk /= len(gaps)
					}
					a := c19add{Payload: c19payloads[n], Start: time.Now()}
					a.Token, a.Err = w.Add(context.Background(), a.Payload)
					a.End = time.Now()
					adds = append(adds, a)
				}
				tag := "sequential"
				rp := map[string]interface{}{"history": h, "tick_mask": ticks}
				c19check(adds, mutable, ws, tag, func(sig, detail string) {
					rep.Violate(sig, fmt.Sprintf("history %v gaps(base 4: 0 / 0.5s / 1s / 25min)=%d: %s", h, ticks, detail), rp)
				})
				rep.Eval(1)
				rep.AddStates(int64(len(h)+1), int64(len(h)), 1)
				rep.Outcome(fmt.Sprintf("seq|%v|%d", h, ticks))
			})
		}
	}
	rep.Set("sequential_histories", len(hist))
	// ---- concurrent appenders
	for _, n := range []int{2, 3} {
		if n == 3 && !lib.Thorough() {
			continue
		}
		n := n
		sc := &lib.Scenario{Name: fmt.Sprintf("%d-appenders", n), FreePreempt: true, Ticks: []time.Duration{time.Second}}
		sc.Setup = func(x *lib.Exec) {
			x.Data["mutable"], x.Data["wal"] = lib.NewMemStore("mutable"), lib.NewMemStore("wal")
			_ = wal.New(x.Data["mutable"].(*lib.MemStore), x.Data["wal"].(*lib.MemStore), wal.Logger(nopLogger)) // creates the token generator object
			x.Data["adds"] = make([]c19add, n)
		}
		var phase []lib.ClientFn
		for i := 0; i < n; i++ {
			i := i
			phase = append(phase, func(x *lib.Exec, id int) error {
				mutable := &lib.GatedStore{Inner: x.Data["mutable"].(*lib.MemStore), X: x, Client: id, Name: "mutable", Filter: func(op, key string) bool { return op != "Put" }}
				ws := &lib.GatedStore{Inner: x.Data["wal"].(*lib.MemStore), X: x, Client: id, Name: "wal"}
				w := wal.New(mutable, ws, wal.Logger(nopLogger))
				a := c19add{Payload: []string{"a", "line one\nline two\n", ""}[i], Start: time.Now()}
				a.Token, a.Err = w.Add(context.Background(), a.Payload)
				a.End = time.Now()
				x.Data["adds"].([]c19add)[i] = a
				return a.Err
			})
		}
		sc.Phases = [][]lib.ClientFn{phase}
		sc.Final = func(x *lib.Exec) {
			if x.Hung {
				x.Violate("C19|add-hangs|concurrent", "appenders never returned")
				return
			}
			o := c19check(x.Data["adds"].([]c19add), x.Data["mutable"].(*lib.MemStore), x.Data["wal"].(*lib.MemStore), "concurrent", x.Violate)
			toks := []string{}
			for _, a := range x.Data["adds"].([]c19add) {
				if k, err := ksuid.Parse(a.Token); err == nil {
					toks = append(toks, k.Time().Format("05"))
				}
			}
			x.SetOutcome(o + ";secs=" + strings.Join(toks, ","))
		}
		journal("concurrent " + sc.Name)
		e := &lib.Explorer{Sc: sc, PreemptBound: -1, FaultBound: 1, MaxExecs: 200000}
		if lib.Thorough() && n == 2 {
			e.FaultBound = 2
		}
		e.Explore(t, rep)
		rep.Set(sc.Name+"_executions", e.Execs)
	}
	// ---- appends under a single transient store fault: an acknowledged entry is listed with its payload unchanged
	{
		payloads := []string{"a", "line one\nline two\n", c19payloads["big"]}
		sc := &lib.Scenario{Name: "appends-under-fault"}
		sc.Setup = func(x *lib.Exec) {
			x.Data["mutable"], x.Data["wal"] = lib.NewMemStore("mutable"), lib.NewMemStore("wal")
			x.Data["adds"] = make([]c19add, len(payloads))
		}
		sc.Phases = [][]lib.ClientFn{{func(x *lib.Exec, id int) error {
			mutable := &lib.GatedStore{Inner: x.Data["mutable"].(*lib.MemStore), X: x, Client: id, Name: "mutable"}
			ws := &lib.GatedStore{Inner: x.Data["wal"].(*lib.MemStore), X: x, Client: id, Name: "wal"}
			w := wal.New(mutable, ws, wal.Logger(nopLogger))
			for i, pl := range payloads {
				time.Sleep(time.Second)
				a := c19add{Payload: pl, Start: time.Now()}
				a.Token, a.Err = w.Add(context.Background(), a.Payload)
				a.End = time.Now()
				x.Data["adds"].([]c19add)[i] = a
			}
			return nil
		}}}
		sc.Faults = func(x *lib.Exec, c *lib.Call) []lib.Decision {
			if c.Write {
				return []lib.Decision{lib.FailBefore, lib.FailAfter, lib.FailConsumed}
			}
			return []lib.Decision{lib.FailBefore}
		}
		sc.Final = func(x *lib.Exec) {
			if x.Hung {
				x.Violate("C19|add-hangs|under-fault", "appender never returned")
				return
			}
			adds := x.Data["adds"].([]c19add)
			w := wal.New(x.Data["mutable"].(*lib.MemStore), x.Data["wal"].(*lib.MemStore), wal.Logger(nopLogger))
			first, acked := "", 0
			for _, a := range adds {
				if a.Err == nil && (first == "" || a.Token < first) {
					first = a.Token
				}
				if a.Err == nil {
					acked++
				}
			}
			x.SetOutcome(fmt.Sprintf("acked=%d", acked))
			if first == "" {
				return
			}
			got, _, err := w.ListEntries(context.Background(), first, 1000)
			if err != nil {
				x.Violate("C19|under-fault|list-error", err.Error())
				return
			}
			byTok := map[string]string{}
			for _, e := range got {
				byTok[e.Token] = e.Payload
				known := false
				for _, pl := range payloads {
					known = known || e.Payload == pl
				}
				if !known {
					x.Violate("C19|under-fault|listed-payload-was-never-appended", fmt.Sprintf("entry %s carries %q", e.Token, trunc(e.Payload)))
				}
			}
			for _, a := range adds {
				if a.Err != nil {
					continue
				}
				if pl, ok := byTok[a.Token]; !ok {
					x.Violate("C19|under-fault|acknowledged-entry-not-listed", fmt.Sprintf("Add(%q) returned %s, listing from %s holds %d entries without it", trunc(a.Payload), a.Token, first, len(got)))
				} else if pl != a.Payload {
					x.Violate("C19|under-fault|acknowledged-entry-payload-changed", fmt.Sprintf("Add(%q) returned %s, listed payload %q (%d of %d bytes)", trunc(a.Payload), a.Token, trunc(pl), len(pl), len(a.Payload)))
				}
			}
		}
		journal("sequential " + sc.Name)
		e := &lib.Explorer{Sc: sc, PreemptBound: 0, FaultBound: 1, MaxExecs: 200000}
		e.Explore(t, rep)
		rep.Set(sc.Name+"_executions", e.Execs)
	}
}
