package props

import (
	"bytes"
	"context"
	"encoding/hex"
	"encoding/json"
	"fmt"
	"io"
	"os"
	"os/exec"
	"path/filepath"
	"sort"
	"strings"
	"sync"
	"testing"
	"time"

	"github.com/oneconcern/datamon/pkg/cafs"
	"verif/harness/lib"
)

// C02 — keys are a deterministic BLAKE2b tree hash of the content.
// E2: product sweep (content, L, chunking, flush concurrency) with keys recomputed by an independent Python oracle;
//     all Put histories of length <=3 over an overlapping content alphabet into one shared store.
// E1: every completion order of the in-flight leaf flushes of one Put; two concurrent Puts of overlapping contents.

type c02rec struct {
	Pattern string   `json:"pattern"`
	N       int      `json:"n"`
	L       int      `json:"L"`
	Key     string   `json:"key"`
	Leaves  []string `json:"leaves"`
}

func splitKeys(b []byte) []string {
	var out []string
	for i := 0; i+cafs.KeySize <= len(b); i += cafs.KeySize {
		out = append(out, hex.EncodeToString(b[i:i+cafs.KeySize]))
	}
	return out
}

func runPyOracle(t *testing.T, rep *lib.Report, recs []c02rec, label string) {
	dir, err := os.MkdirTemp("", "verif-c02-")
	if err != nil {
		t.Fatal(err)
	}
	defer os.RemoveAll(dir)
	f := filepath.Join(dir, "keys.jsonl")
	var sb strings.Builder
	for _, r := range recs {
		b, _ := json.Marshal(r)
		sb.Write(b)
		sb.WriteByte('\n')
	}
	if err := os.WriteFile(f, []byte(sb.String()), 0o644); err != nil {
		t.Fatal(err)
	}
	cmd := exec.Command("python3", filepath.Join(lib.VerifDir(), "py", "blake_ref.py"), f)
	out, err := cmd.Output()
	var res struct {
		Checked    int                      `json:"checked"`
		Mismatches []map[string]interface{} `json:"mismatches"`
		N          int                      `json:"n_mismatches"`
	}
	if jerr := json.Unmarshal(bytes.TrimSpace(out), &res); jerr != nil {
		t.Fatalf("python oracle failed to run (%v): %s", err, out)
	}
	rep.Add("keys_recomputed_by_python_oracle", int64(res.Checked))
	if res.Checked != len(recs) {
		t.Fatalf("python oracle checked %d of %d records", res.Checked, len(recs))
	}
	for _, m := range res.Mismatches {
		n, L := int(m["n"].(float64)), int(m["L"].(float64))
		rep.Violate(fmt.Sprintf("C02|key-differs-from-blake2b-tree-reference|%s|%s", label, lenClass(n, L)),
			fmt.Sprintf("content %v n=%d L=%d: datamon key %v, independent BLAKE2b tree-mode reference %v (leaf keys match: %v)", m["pattern"], n, L, m["got"], m["want"], m["leaves_match"]), m)
	}
}

func TestC02(t *testing.T) {
	rep := lib.NewReport("C02", "model_checking")
	defer rep.Finish(t)
	rep.Rule = "(1) product sweep of (pattern, n, L) x chunkings x flush concurrency: key identical across configurations and equal to an independent Python hashlib.blake2b tree-mode recomputation; injectivity over the sweep. (2) all histories of <=3 Puts over {empty, A, prefix(A), A' (shares A's first leaf), B} into one shared store, one Fs or a fresh Fs per Put: key, Found flag, no existing blob rewritten with different bytes, all earlier objects read back. (3) E1: every completion order of in-flight leaf flushes (GetAttr/Put pairs) of one Put, and two concurrent Puts of overlapping contents under preemption bounds. distinct = distinct objects + distinct E1 outcomes"
	rep.Assume("python3 hashlib.blake2b (OpenSSL/reference BLAKE2) is the trusted independent implementation; it is first checked against both worked examples in docs/blake2.md")
	ctx := context.Background()

	// ---------- (1) sweep
	type obj struct {
		L, n int
		pat  string
	}
	var objs []obj
	Ls := []int{64, 100}
	if lib.Thorough() {
		Ls = []int{64, 65, 100, 4096}
	}
	for _, L := range Ls {
		var ns []int
		if L == 64 && lib.Thorough() {
			for n := 0; n <= 3*L+1; n++ {
				ns = append(ns, n)
			}
			ns = append(ns, 4*L, 5*L+3, 6*L, 6*L+1)
		} else {
			ns = []int{0, 1, L - 1, L, L + 1, 2*L - 1, 2 * L, 2*L + 1, 3 * L, 3*L + 1, 6 * L, 6*L + 1}
		}
		for _, n := range ns {
			for _, p := range []string{"pos", "zero", "rep"} {
				objs = append(objs, obj{L, n, p})
			}
		}
	}
	if lib.Thorough() {
		for _, L := range []int{1 << 20, 5 << 20} {
			for _, n := range []int{L - 1, L, L + 1, 2*L + 1} {
				objs = append(objs, obj{L, n, "pos"})
			}
		}
	}
	recs := make([]c02rec, len(objs))
	var wg sync.WaitGroup
	sem := make(chan struct{}, 16)
	for i, o := range objs {
		wg.Add(1)
		sem <- struct{}{}
		go func(i int, o obj) {
			defer wg.Done()
			defer func() { <-sem }()
			data := pattern(o.pat, o.n, o.L)
			chunks := []int{1, o.L - 1, o.L, o.L + 1, 2*o.L + 1, 0, -1}
			concs := []int{1, 2, 3, 16}
			if o.L > 100 {
				chunks, concs = []int{o.L + 1, 0, -1}, []int{1, 4}
			}
			var ref *cafs.PutRes
			for _, ch := range chunks {
				for _, k := range concs {
					st := lib.NewMemStore("blob")
					st.NoJournal = true
					fs := newFs(st, o.L, k, 0, 4)
					rp := map[string]interface{}{"L": o.L, "n": o.n, "pattern": o.pat, "chunk": ch, "flush_concurrency": k}
					guard(rep, "C02|put|"+lenClass(o.n, o.L), func() string { return fmt.Sprint(rp) }, rp, func() {
						res, err := fs.Put(ctx, source(data, ch))
						rep.Eval(1)
						if err != nil {
							rep.Violate("C02|put-error|"+lenClass(o.n, o.L), fmt.Sprintf("%v: %v", rp, err), rp)
							return
						}
						if res.Found {
							rep.Violate("C02|found-on-empty-store", fmt.Sprintf("%v: Put into an empty store reported a duplicate", rp), rp)
						}
						if ref == nil {
							r := res
							ref = &r
						} else if res.Key != ref.Key || !bytes.Equal(res.Keys, ref.Keys) {
							rep.Violate(fmt.Sprintf("C02|key-depends-on-config|%s|%s", chunkClass(ch, o.L), lenClass(o.n, o.L)),
								fmt.Sprintf("%v: key %s, but first configuration gave %s", rp, res.Key, ref.Key), rp)
						}
						// stored layout: root blob = leaf keys followed by the root key; leaf blobs = content slices
						rootBlob, ok := st.RawGet(res.Key.String())
						if !ok || !bytes.Equal(rootBlob, append(append([]byte(nil), res.Keys...), res.Key[:]...)) {
							rep.Violate("C02|root-blob-layout", fmt.Sprintf("%v: root blob is not leafkeys||rootkey", rp), rp)
						}
						for li, lk := range splitKeys(res.Keys) {
							b, ok := st.RawGet(lk)
							end := (li + 1) * o.L
							if end > o.n {
								end = o.n
							}
							if !ok || !bytes.Equal(b, data[li*o.L:end]) {
								rep.Violate("C02|leaf-blob-layout", fmt.Sprintf("%v: leaf %d blob differs from content slice", rp, li), rp)
							}
						}
						if want := (o.n + o.L - 1) / o.L; len(res.Keys)/cafs.KeySize != want || st.Len() > want+1 {
							rep.Violate("C02|leaf-count", fmt.Sprintf("%v: %d leaf keys, %d blobs, want %d leaves", rp, len(res.Keys)/cafs.KeySize, st.Len(), want), rp)
						}
					})
				}
			}
			if ref != nil {
				recs[i] = c02rec{Pattern: o.pat, N: o.n, L: o.L, Key: ref.Key.String(), Leaves: splitKeys(ref.Keys)}
				rep.Outcome(fmt.Sprintf("obj|%d|%d|%s", o.L, o.n, o.pat))
			}
		}(i, o)
	}
	wg.Wait()
	var good []c02rec
	byKey := map[string]string{}
	for i, r := range recs {
		if r.Key == "" {
			continue
		}
		good = append(good, r)
		o := objs[i]
		content := string(pattern(o.pat, o.n, o.L))
		id := fmt.Sprintf("L=%d|", o.L) + r.Key
		if prev, ok := byKey[id]; ok && prev != content {
			rep.Violate("C02|injectivity", fmt.Sprintf("two different contents share key %s at L=%d (n=%d pattern %s)", r.Key, o.L, o.n, o.pat), nil)
		}
		byKey[id] = content
	}
	// equal content => equal key: zero-length objects of every pattern
	runPyOracle(t, rep, good, "sweep")
	rep.Sample(map[string]interface{}{"sweep_record": good[len(good)/2]})

	// ---------- (2) histories
	c02histories(t, rep)

	// ---------- (3) E1
	c02sched(t, rep)
}

func c02alphabet(L int) (names []string, contents map[string][]byte) {
	A := pattern("pos", 2*L+22, L)
	Ap := append(append([]byte(nil), A[:L]...), pattern("rep", L+5, L)...) // shares A's first leaf
	B := pattern("zero", L+1, L)
	contents = map[string][]byte{"empty": {}, "A": A, "prefixA": A[:L+10], "A'": Ap, "B": B, "leafA": A[:L]}
	return []string{"empty", "A", "prefixA", "A'", "B", "leafA"}, contents
}

func c02histories(t *testing.T, rep *lib.Report) {
	ctx := context.Background()
	L := 64
	names, contents := c02alphabet(L)
	// reference keys from solo puts, cross-checked by the python oracle
	ref := map[string]cafs.Key{}
	var recs []c02rec
	for _, nm := range names {
		st := lib.NewMemStore("blob")
		res, err := newFs(st, L, 2, 0, 4).Put(ctx, bytes.NewReader(contents[nm]))
		if err != nil {
			rep.Violate("C02|history|solo-put-error", nm+": "+err.Error(), nil)
			return
		}
		ref[nm] = res.Key
		recs = append(recs, c02rec{Pattern: "hex:" + hex.EncodeToString(contents[nm]), N: len(contents[nm]), L: L, Key: res.Key.String(), Leaves: splitKeys(res.Keys)})
	}
	runPyOracle(t, rep, recs, "alphabet")
	var hist [][]string
	var gen func(h []string, d int)
	maxLen := 3
	gen = func(h []string, d int) {
		if len(h) > 0 {
			hist = append(hist, append([]string(nil), h...))
		}
		if d == maxLen {
			return
		}
		for _, nm := range names {
			gen(append(h, nm), d+1)
		}
	}
	gen(nil, 0)
	for _, h := range hist {
		for _, fresh := range []bool{false, true} {
			st := lib.NewMemStore("blob")
			var fs cafs.Fs
			put := map[string]bool{}
			rp := map[string]interface{}{"history": h, "fresh_fs_per_put": fresh, "L": L}
			for step, nm := range h {
				if fs == nil || fresh {
					fs = newFs(st, L, 2, 0, 4)
				}
				jl := st.JournalLen()
				before := st.Snapshot()
				res, err := fs.Put(ctx, source(contents[nm], 7))
				rep.Eval(1)
				if err != nil {
					rep.Violate("C02|history|put-error", fmt.Sprintf("%v step %d: %v", rp, step, err), rp)
					break
				}
				if res.Key != ref[nm] {
					rep.Violate("C02|history|key-depends-on-store-content", fmt.Sprintf("%v step %d (%s): key %s, solo key %s", rp, step, nm, res.Key, ref[nm]), rp)
				}
				_, existed := before[ref[nm].String()]
				if res.Found != existed {
					rep.Violate(fmt.Sprintf("C02|history|found-flag|existed=%v", existed), fmt.Sprintf("%v step %d (%s): Found=%v but root blob existed=%v", rp, step, nm, res.Found, existed), rp)
				}
				for _, je := range st.JournalSince(jl) {
					if je.Op == "delete" || je.Op == "clear" || (je.Op == "put" && je.Existed && !je.Same) {
						rep.Violate("C02|history|existing-blob-changed", fmt.Sprintf("%v step %d (%s): %s of existing key %s changed its bytes", rp, step, nm, je.Op, je.Key), rp)
					}
					if je.Op == "put" && je.Existed && je.Same {
						rep.Add("identical_rewrites_of_existing_blobs_noted", 1)
					}
				}
				put[nm] = true
				for earlier := range put {
					r, err := fs.Get(ctx, ref[earlier])
					var got []byte
					if err == nil {
						got, err = io.ReadAll(r)
					}
					if err != nil || !bytes.Equal(got, contents[earlier]) {
						rep.Violate("C02|history|earlier-object-unreadable", fmt.Sprintf("%v after step %d: object %s reads back wrong (%v)", rp, step, earlier, err), rp)
					}
				}
			}
			rep.Outcome("hist|" + strings.Join(h, ",") + fmt.Sprint(fresh))
		}
	}
	rep.Set("put_histories", 2*len(hist))
	rep.Sample(map[string]interface{}{"history": hist[len(hist)-1]})
}

func c02sched(t *testing.T, rep *lib.Report) {
	L := 64
	ctx := context.Background()
	type sc struct {
		leaves, conc int
	}
	// leaves = number of FULL leaves (flushed in parallel); a trailing partial leaf is always added
	cfgs := []sc{{2, 2}, {3, 2}, {3, 3}, {4, 4}}
	if lib.Thorough() {
		cfgs = append(cfgs, sc{4, 2}, sc{5, 3}, sc{5, 5}, sc{4, 16})
	}
	for _, c := range cfgs {
		data := pattern("pos", c.leaves*L+17, L)
		refSt := lib.NewMemStore("blob")
		refRes, err := newFs(refSt, L, 1, 0, 4).Put(ctx, bytes.NewReader(data))
		if err != nil {
			t.Fatal(err)
		}
		refDigest := refSt.Digest()
		s := &lib.Scenario{Name: fmt.Sprintf("put-%dfull-leaves-conc%d", c.leaves, c.conc), AllIntraOrders: true, FreePreempt: true}
		s.Setup = func(x *lib.Exec) { x.Data["st"] = lib.NewMemStore("blob") }
		s.Phases = [][]lib.ClientFn{{func(x *lib.Exec, id int) error {
			st := x.Data["st"].(*lib.MemStore)
			g := &lib.GatedStore{Inner: st, X: x, Client: id, Name: "blob"}
			fs, err := cafs.New(cafs.LeafSize(uint32(L)), cafs.Backend(g), cafs.ConcurrentFlushes(c.conc), cafs.Logger(nopLogger), cafs.CacheSize(4*L))
			if err != nil {
				return err
			}
			res, err := fs.Put(ctx, source(data, 50))
			if err == nil {
				x.Data["res"] = res
			}
			return err
		}}}
		s.Final = func(x *lib.Exec) {
			st := x.Data["st"].(*lib.MemStore)
			if x.Hung {
				x.Violate("C02|sched|hang", "Put never completed under this completion order")
				return
			}
			if err := x.ClientErr[0]; err != nil {
				x.Violate("C02|sched|put-error", err.Error())
				return
			}
			res := x.Data["res"].(cafs.PutRes)
			if res.Key != refRes.Key || !bytes.Equal(res.Keys, refRes.Keys) {
				x.Violate("C02|sched|key-depends-on-flush-order", fmt.Sprintf("key %s leaf keys differ from sequential reference %s", res.Key, refRes.Key))
			}
			if st.Digest() != refDigest {
				x.Violate("C02|sched|store-differs", "blob store content differs from the sequential run")
			}
			x.SetOutcome(res.Key.String()[:12] + "|" + st.Digest())
		}
		e := &lib.Explorer{Sc: s, PreemptBound: -1, MaxExecs: 400000}
		if !lib.Thorough() {
			e.MaxExecs = 30000
		}
		e.Explore(t, rep)
		rep.Set(s.Name+"_executions", e.Execs)
	}

	// a Put under a single transient failure of any of its store calls: an error, or exactly the fault-free result
	for _, c := range []sc{{2, 2}, {3, 2}, {3, 4}} {
		c := c
		data := pattern("pos", c.leaves*L+17, L)
		refSt := lib.NewMemStore("blob")
		refRes, err := newFs(refSt, L, 1, 0, 4).Put(ctx, bytes.NewReader(data))
		if err != nil {
			t.Fatal(err)
		}
		refDigest := refSt.Digest()
		s := &lib.Scenario{Name: fmt.Sprintf("put-under-fault-%dfull-leaves-conc%d", c.leaves, c.conc)}
		s.Setup = func(x *lib.Exec) { x.Data["st"] = lib.NewMemStore("blob") }
		s.Phases = [][]lib.ClientFn{{func(x *lib.Exec, id int) error {
			st := x.Data["st"].(*lib.MemStore)
			g := &lib.GatedStore{Inner: st, X: x, Client: id, Name: "blob"}
			fs, err := cafs.New(cafs.LeafSize(uint32(L)), cafs.Backend(g), cafs.ConcurrentFlushes(c.conc), cafs.Logger(nopLogger), cafs.CacheSize(4*L))
			if err != nil {
				return err
			}
			var res cafs.PutRes
			var perr error
			func() {
				defer func() {
					if r := recover(); r != nil {
						perr = fmt.Errorf("panic: %v", r)
						x.Data["panic"] = fmt.Sprint(r)
					}
				}()
				res, perr = fs.Put(ctx, source(data, 50))
			}()
			if perr == nil {
				x.Data["res"] = res
			}
			return perr
		}}}
		s.Faults = transientFaults(0)
		s.Final = func(x *lib.Exec) {
			st := x.Data["st"].(*lib.MemStore)
			site := faultClass(x)
			if x.Hung {
				x.Violate("C02|under-fault|hang", "Put never returned under "+site)
				return
			}
			if p, ok := x.Data["panic"].(string); ok {
				x.Violate("C02|under-fault|panic", fmt.Sprintf("Put panicked under %s: %s", site, p))
				return
			}
			err := x.ClientErr[0]
			x.SetOutcome(site + ";" + errTag(err))
			if err != nil {
				if site == "none" {
					x.Violate("C02|under-fault|error-without-fault", err.Error())
				}
				return
			}
			res := x.Data["res"].(cafs.PutRes)
			if res.Key != refRes.Key || !bytes.Equal(res.Keys, refRes.Keys) {
				x.Violate("C02|under-fault|success-with-wrong-key", fmt.Sprintf("Put returned nil under %s with key %s; the content's key is %s", site, res.Key, refRes.Key))
			}
			if st.Digest() != refDigest {
				x.Violate("C02|under-fault|success-with-incomplete-store", fmt.Sprintf("Put returned nil under %s but the blob store differs from a fault-free run (%d vs %d objects)", site, len(st.RawKeys()), len(refSt.RawKeys())))
			}
		}
		e := &lib.Explorer{Sc: s, PreemptBound: 0, FaultBound: 1, MaxExecs: 100000, Budget: 5 * time.Minute}
		e.Explore(t, rep)
		rep.Set(s.Name+"_executions", e.Execs)
	}

	// two concurrent Puts of overlapping contents into one store
	_, contents := c02alphabet(L)
	pairs := [][2]string{{"A", "A"}, {"A", "A'"}, {"A", "prefixA"}, {"leafA", "A"}}
	for _, p := range pairs {
		p := p
		refKeys := [2]cafs.Key{}
		refSt := lib.NewMemStore("blob")
		for i, nm := range p {
			res, err := newFs(refSt, L, 1, 0, 4).Put(ctx, bytes.NewReader(contents[nm]))
			if err != nil {
				t.Fatal(err)
			}
			refKeys[i] = res.Key
		}
		refDigest := refSt.Digest()
		s := &lib.Scenario{Name: fmt.Sprintf("2puts-%s-%s", p[0], p[1])}
		s.Setup = func(x *lib.Exec) { x.Data["st"] = lib.NewMemStore("blob") }
		mk := func(i int) lib.ClientFn {
			return func(x *lib.Exec, id int) error {
				st := x.Data["st"].(*lib.MemStore)
				g := &lib.GatedStore{Inner: st, X: x, Client: id, Name: "blob"}
				fs, err := cafs.New(cafs.LeafSize(uint32(L)), cafs.Backend(g), cafs.ConcurrentFlushes(1), cafs.Logger(nopLogger), cafs.CacheSize(4*L))
				if err != nil {
					return err
				}
				res, err := fs.Put(ctx, source(contents[p[i]], 50))
				if err == nil {
					x.Data[fmt.Sprint("res", i)] = res
				}
				return err
			}
		}
		s.Phases = [][]lib.ClientFn{{mk(0), mk(1)}}
		s.Final = func(x *lib.Exec) {
			st := x.Data["st"].(*lib.MemStore)
			if x.Hung {
				x.Violate("C02|sched2|hang", "concurrent Puts never completed")
				return
			}
			out := ""
			for i := 0; i < 2; i++ {
				if err := x.ClientErr[i]; err != nil {
					x.Violate("C02|sched2|put-error", fmt.Sprintf("client %d: %v", i, err))
					return
				}
				res := x.Data[fmt.Sprint("res", i)].(cafs.PutRes)
				if res.Key != refKeys[i] {
					x.Violate("C02|sched2|key-depends-on-interleaving", fmt.Sprintf("client %d key %s, reference %s", i, res.Key, refKeys[i]))
				}
				out += fmt.Sprintf("found%d=%v;", i, res.Found)
			}
			if st.Digest() != refDigest {
				x.Violate("C02|sched2|store-differs", "blob store content differs from sequential Puts")
			}
			for _, je := range st.JournalSince(0) {
				if je.Op == "put" && je.Existed && !je.Same {
					x.Violate("C02|sched2|existing-blob-changed", "put of existing key "+je.Key+" changed its bytes")
				}
			}
			x.SetOutcome(out)
		}
		pb := 2
		if lib.Thorough() {
			pb = 3
		}
		e := &lib.Explorer{Sc: s, PreemptBound: pb, MaxExecs: 300000}
		e.Explore(t, rep)
		rep.Set(s.Name+"_executions", e.Execs)
		keys := make([]string, 0, len(e.Outcomes))
		for k := range e.Outcomes {
			keys = append(keys, k)
		}
		sort.Strings(keys)
		rep.Set(s.Name+"_outcomes", keys)
	}
}
