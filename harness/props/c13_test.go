package props

import (
	"bytes"
	"fmt"
	"os"
	"sort"
	"strings"
	"testing"
	"time"

	context2 "github.com/oneconcern/datamon/pkg/context"
	"github.com/oneconcern/datamon/pkg/core"
	"verif/harness/lib"
)

// C13 — purging never deletes data that a committed bundle needs.
// E1: index build (every index-store write a crash point, every store call a transient-fault point, clock ticks firing
// the chunk uploader mid-scan), resume after a crash, an upload between index and delete, delete-unused under
// transient faults; oracle: whenever the commands report success every bundle still downloads.

type c13scn struct {
	hist string // base | orphan | many (base + a 12-leaf file: with chunk size 1 the index has more than 10 chunks,
	// whose names chunk-1, chunk-10, chunk-11, chunk-2 ... are not listed in numeric order)
	upload string // none | fresh | shares-indexed | reuses-orphan
}

var c13orphan = []byte("content of a bundle deleted before the index was built")

func c13setup(x *lib.Exec, s c13scn) *c14world {
	cw := c14new()
	must := func(err error) {
		if err != nil {
			panic(err)
		}
	}
	if s.hist == "orphan" {
		st, name := cw.stores("r1")
		b, err := uploadFiles(st, name, map[string][]byte{"o": c13orphan}, c14L, 0)
		must(err)
		time.Sleep(time.Second)
		must(core.DeleteBundle(name, st, b.BundleID))
	}
	must(cw.apply(c14step{"upload", "r1", "A"}))
	must(cw.apply(c14step{"upload", "r2", "A'"}))
	must(cw.apply(c14step{"upload", "x:r3", "C"}))
	must(cw.apply(c14step{"upload", "x:r3", "D"})) // blobs referenced from the extra context only
	must(cw.apply(c14step{"upload", "r1", "C"}))
	must(cw.apply(c14step{"delete", "r1", ""}))
	if s.hist == "many" {
		must(cw.apply(c14step{"upload", "r2", "B"}))
	}
	time.Sleep(time.Second)
	x.Data["cw"] = cw
	return cw
}

func c13faultSite(x *lib.Exec) string {
	var sites []string
	for _, s := range x.Steps {
		g := s.Granted
		if strings.HasPrefix(g, "tick") {
			continue
		}
		kind := ""
		for _, k := range []string{"fail-after-reading-body", "fail-slow", "fail-before", "fail-after", "crash-before", "crash-after"} {
			if strings.HasPrefix(g, k+" ") {
				kind = k
				break
			}
		}
		if kind == "" {
			continue
		}
		rest := g[len(kind)+1:]
		who := "index-build"
		switch {
		case strings.HasPrefix(rest, "c1:"):
			who = "index-resume"
		case strings.HasPrefix(rest, "c3:"):
			who = "delete-unused"
		}
		op := "other"
		switch {
		case strings.Contains(rest, "meta.Put(reverse-index/"):
			op = "index-chunk-put"
		case strings.Contains(rest, "meta.Delete(reverse-index/"):
			op = "index-chunk-delete"
		case strings.Contains(rest, "meta.Get(reverse-index/"):
			op = "index-chunk-get"
		case strings.Contains(rest, "meta.KeysPrefix(reverse-index"):
			op = "index-chunk-list"
		case strings.Contains(rest, "blob.GetAttr("):
			op = "blob-getattr"
		case strings.Contains(rest, "blob.Delete("):
			op = "blob-delete"
		case strings.Contains(rest, "blob.KeysPrefix("):
			op = "blob-list"
		case strings.Contains(rest, "blob.Get("):
			op = "blob-get-root"
		case strings.Contains(rest, ".KeysPrefix("):
			op = "metadata-list"
		case strings.Contains(rest, ".Get(") || strings.Contains(rest, ".Has("):
			op = "metadata-read"
		}
		sites = append(sites, who+":"+kind+":"+op)
	}
	ticks := 0
	for _, s := range x.Steps {
		if strings.HasPrefix(s.Granted, "tick") {
			ticks++
		}
	}
	sort.Strings(sites)
	out := strings.Join(sites, "+")
	if out == "" {
		out = "none"
	}
	if ticks > 0 {
		out += "+uploader-tick"
	}
	return out
}

func c13scenario(s c13scn) *lib.Scenario {
	sc := &lib.Scenario{Name: fmt.Sprintf("purge hist=%s upload=%s", s.hist, s.upload), Ticks: []time.Duration{5 * time.Minute}}
	sc.Setup = func(x *lib.Exec) {
		c13setup(x, s)
		dir, err := os.MkdirTemp("", "verif-c13-")
		if err != nil {
			panic(err)
		}
		x.Data["dir"] = dir
	}
	gates := map[string]func(string, string) bool{
		"meta": allCalls,
		"blob": allCalls,
	}
	purgeOpts := func(x *lib.Exec, cw *c14world, sub string, extra ...core.PurgeOption) []core.PurgeOption {
		dir := x.Data["dir"].(string) + "/" + sub
		chunk := uint64(2)
		if s.hist == "many" {
			chunk = 1
		}
		return append([]core.PurgeOption{core.WithPurgeLocalStore(dir), core.WithPurgeLogger(nopLogger), core.WithPurgeIndexChunkSize(chunk),
			core.WithPurgeExtraContexts([]context2.Stores{cw.extra.Stores()}), core.WithPurgeParallel(1)}, extra...)
	}
	sc.Phases = [][]lib.ClientFn{
		{func(x *lib.Exec, id int) error { // index build
			cw := x.Data["cw"].(*c14world)
			_, err := core.PurgeBuildReverseIndex(cw.w.Gated(x, id, gates), purgeOpts(x, cw, "kv0")...)
			return err
		}},
		{func(x *lib.Exec, id int) error { // resume after a crash
			cw := x.Data["cw"].(*c14world)
			if !x.IsDead(0) {
				return nil
			}
			x.Data["resumed"] = true
			_, err := core.PurgeBuildReverseIndex(cw.w.Gated(x, id, gates), purgeOpts(x, cw, "kv1", core.WithPurgeResumeIndex(true))...)
			return err
		}},
		{func(x *lib.Exec, id int) error { // upload between index and delete-unused
			cw := x.Data["cw"].(*c14world)
			time.Sleep(time.Second)
			var files map[string][]byte
			switch s.upload {
			case "none":
				return nil
			case "fresh":
				files = map[string][]byte{"n": []byte("brand new content after the index")}
			case "shares-indexed":
				files = map[string][]byte{"n": c14contents["A"], "m": []byte("plus something new")}
			case "reuses-orphan":
				files = map[string][]byte{"n": c13orphan}
			}
			st, name := cw.stores("r2")
			b, err := uploadFiles(st, name, files, c14L, 0)
			if err == nil {
				x.Data["post"] = b.BundleID
				x.Data["postfiles"] = files
			}
			time.Sleep(time.Second)
			return err
		}},
		{func(x *lib.Exec, id int) error { // delete unused
			cw := x.Data["cw"].(*c14world)
			// an operator does not go on with delete-unused when the index build reported a failure
			if ierr := x.ClientErr[0]; (ierr != nil && !x.IsDead(0)) || (x.IsDead(0) && x.ClientErr[1] != nil) {
				return fmt.Errorf("skipped: the index build failed")
			}
			_, err := core.PurgeDeleteUnused(cw.w.Gated(x, id, gates), purgeOpts(x, cw, "kv3")...)
			return err
		}},
	}
	sc.Faults = func(x *lib.Exec, c *lib.Call) []lib.Decision {
		switch c.Client {
		case 0:
			if c.Write {
				return []lib.Decision{lib.CrashBefore, lib.CrashAfter, lib.FailBefore, lib.FailAfter, lib.FailConsumed}
			}
			return []lib.Decision{lib.FailBefore, lib.FailSlow}
		case 1:
			if c.Write {
				return []lib.Decision{lib.FailBefore, lib.FailAfter, lib.FailConsumed}
			}
			return []lib.Decision{lib.FailBefore, lib.FailSlow}
		case 3:
			if c.Write {
				return []lib.Decision{lib.FailBefore, lib.FailAfter}
			}
			return []lib.Decision{lib.FailBefore}
		}
		return nil
	}
	sc.Final = func(x *lib.Exec) {
		defer os.RemoveAll(x.Data["dir"].(string))
		cw := x.Data["cw"].(*c14world)
		site := c13faultSite(x)
		if x.Hung {
			x.Violate("C13|hang|fault="+site, "purge commands never returned")
			return
		}
		indexErr := x.ClientErr[0]
		if x.IsDead(0) {
			indexErr = x.ClientErr[1]
		}
		delErr := x.ClientErr[3]
		out := fmt.Sprintf("index=%s;delete=%s;fault=%s", errTag(indexErr), errTag(delErr), site)
		x.SetOutcome(out)
		if x.ClientErr[2] != nil {
			x.Violate("C13|upload-between-failed", x.ClientErr[2].Error())
			return
		}
		if indexErr != nil || delErr != nil {
			return // a command reported failure: the user knows the purge did not complete
		}
		check := func(st context2.Stores, repo, id string, want map[string][]byte, which string) {
			dest := lib.NewMemStore("dest")
			dest.NoCRC, dest.NoJournal = true, true
			if _, err := downloadBundle(st, repo, id, dest, 0); err != nil {
				sig := "C13|bundle-lost-blob|fault=" + site
				if which == "uploaded-after-index" && s.upload == "reuses-orphan" {
					sig = "C13|blob-reused-from-orphan-purged"
				}
				x.Violate(sig, fmt.Sprintf("[%s, upload between index and delete: %s] "+"bundle %s of %s no longer downloads although index build and delete-unused reported success: %v", which, s.upload, id, repo, err))
				return
			}
			snap := dest.Snapshot()
			for n, d := range want {
				if !bytes.Equal(snap[n], d) {
					x.Violate("C13|bundle-content-changed-after-purge|fault="+site, fmt.Sprintf("[%s, upload %s] bundle %s file %s differs", which, s.upload, id, n))
				}
			}
		}
		for repo, l := range cw.bundles {
			st, name := cw.stores(repo)
			for _, id := range l {
				check(st, name, id, map[string][]byte{"f": c14contents[cw.content[id]], "g/" + cw.content[id]: c14contents["C"]}, "committed-before-index")
			}
		}
		if id, ok := x.Data["post"].(string); ok {
			st, name := cw.stores("r2")
			check(st, name, id, x.Data["postfiles"].(map[string][]byte), "uploaded-after-index")
		}
	}
	return sc
}

func TestC13(t *testing.T) {
	rep := lib.NewReport("C13", "fault_enumeration")
	defer rep.Finish(t)
	fb := 1
	if lib.Thorough() {
		fb = 2
	}
	rep.Rule = fmt.Sprintf("history: 3 repos over 2 contexts sharing deduplicated blobs (one bundle of the second context holds blobs nothing else references), a deleted bundle (orphaned blobs), optionally a bundle deleted earlier whose content is uploaded again later; index build with chunk size 2 (and, history 'many', chunk size 1 over 15 keys: more than 10 chunks, listed out of numeric order on resume) where EVERY store call is a fault point (reads: transient error, or a request that hangs 5 minutes and then fails; writes: transient before / after / after-reading-the-body, crash before / after) and a 5-minute clock tick may fire the chunk uploader at any step; after a crash the build is resumed; then one of 4 uploads (none / fresh / sharing indexed blobs / re-using orphaned blobs); then delete-unused with a transient fault on any of its store calls; <=%d deviations per execution; oracle: if the commands reported success, every bundle committed before the index and the bundle uploaded after it download with their original bytes; distinct = distinct (scenario, fault site, outcome)", fb)
	var scs []*lib.Scenario
	for _, h := range []string{"base", "orphan", "many"} {
		for _, u := range []string{"none", "fresh", "shares-indexed", "reuses-orphan"} {
			if u == "reuses-orphan" && h != "orphan" {
				continue
			}
			if h == "many" && u != "none" {
				continue
			}
			if h == "orphan" && (u == "fresh" || u == "shares-indexed") && !lib.Thorough() {
				continue
			}
			scs = append(scs, c13scenario(c13scn{h, u}))
		}
	}
	stall := 12 * time.Minute
	if lib.Thorough() {
		stall = 65 * time.Minute
	}
	parent := lib.RunCases(t, rep, "TestC13", len(scs), 0, stall, func(i int) {
		e := &lib.Explorer{Sc: scs[i], PreemptBound: 0, FaultBound: fb, MaxExecs: 500000, Budget: stall - 3*time.Minute}
		e.Explore(t, rep)
		rep.Set("executions:"+scs[i].Name, e.Execs)
		rep.Set("max_steps:"+scs[i].Name, e.MaxSteps)
		rep.Set("hangs:"+scs[i].Name, e.Hangs)
	}, func(i int, how, output string) {
		rep.Violate("C13|worker-"+strings.SplitN(how, ":", 2)[0], fmt.Sprintf("scenario %s: worker %s: %s", scs[i].Name, how, output), nil)
	})
	if parent {
		rep.Set("fault_bound_completed", fb)
	}
}
