package props

import (
	"context"
	"github.com/spf13/afero"
	"os"
	"sync"
	"testing"
	"time"

	"github.com/oneconcern/datamon/pkg/core"
	"github.com/oneconcern/datamon/pkg/model"

	context2 "github.com/oneconcern/datamon/pkg/context"
	"github.com/oneconcern/datamon/pkg/storage"
	"go.uber.org/zap"
	"verif/harness/lib"
)

// World is the set of shared reference stores of one datamon context.
type World struct {
	Meta, VMeta, Blob, Wal, ReadLog *lib.MemStore
}

func NewWorld() *World {
	return &World{
		Meta: lib.NewMemStore("meta"), VMeta: lib.NewMemStore("vmeta"), Blob: lib.NewMemStore("blob"),
		Wal: lib.NewMemStore("wal"), ReadLog: lib.NewMemStore("readlog"),
	}
}

// Stores returns ungated context stores.
func (w *World) Stores() context2.Stores {
	return context2.NewStores(w.Wal, w.ReadLog, w.Blob, w.Meta, w.VMeta)
}

// Gated returns context stores for one client of a controlled execution; gate lists the store names to gate.
func (w *World) Gated(x *lib.Exec, client int, gate map[string]func(op, key string) bool) context2.Stores {
	wrap := func(name string, s *lib.MemStore) storage.Store {
		f, ok := gate[name]
		if !ok {
			f = func(string, string) bool { return false }
		}
		return &lib.GatedStore{Inner: s, X: x, Client: client, Name: name, Filter: f}
	}
	return context2.NewStores(wrap("wal", w.Wal), wrap("readlog", w.ReadLog), wrap("blob", w.Blob), wrap("meta", w.Meta), wrap("vmeta", w.VMeta))
}

func allCalls(string, string) bool { return true }

var nopLogger = zap.NewNop()

func TestMain(m *testing.M) {
	os.Exit(m.Run())
}

// ---- bundle helpers -------------------------------------------------------------------------

func mkRepo(stores context2.Stores, name string) error {
	return core.CreateRepo(model.RepoDescriptor{Name: name, Description: "verif repo " + name, Timestamp: time.Now(),
		Contributor: model.Contributor{Name: "v", Email: "v@x.io"}}, stores)
}

func newBundleDesc(L int, msg string) *model.BundleDescriptor {
	bd := model.NewBundleDescriptor(model.Message(msg), model.BundleContributor(model.Contributor{Name: "v", Email: "v@x.io"}))
	bd.LeafSize = uint32(L)
	return bd
}

// srcStore builds an in-memory consumable store holding the given files.
func srcStore(files map[string][]byte) *lib.MemStore {
	s := lib.NewMemStore("src")
	s.NoCRC = true
	for k, v := range files {
		s.RawSet(k, v)
	}
	return s
}

// uploadFiles uploads files as a new bundle of repo (entries per index file = epf; 0 = the public default path).
func uploadFiles(stores context2.Stores, repo string, files map[string][]byte, L int, epf uint, opts ...core.BundleOption) (*core.Bundle, error) {
	// one file at a time by default: the order of entries in the index files follows upload completion order, which
	// must not depend on the Go scheduler when the upload is part of a deterministic scenario set-up
	o := append([]core.BundleOption{core.Repo(repo), core.ContextStores(stores), core.ConsumableStore(srcStore(files)),
		core.BundleDescriptor(newBundleDesc(L, "upload")), core.Logger(nopLogger), core.ConcurrentFileUploads(1)}, opts...)
	b := core.NewBundle(o...)
	var err error
	if epf == 0 {
		err = core.Upload(context.Background(), b)
	} else {
		err = core.VerifUpload(context.Background(), b, epf, nil)
	}
	return b, err
}

// downloadBundle publishes bundle id of repo into dest.
func downloadBundle(stores context2.Stores, repo, id string, dest storage.Store, epf uint, opts ...core.BundleOption) (*core.Bundle, error) {
	o := append([]core.BundleOption{core.Repo(repo), core.ContextStores(stores), core.ConsumableStore(dest), core.BundleID(id), core.Logger(nopLogger)}, opts...)
	b := core.NewBundle(o...)
	var err error
	if epf == 0 {
		err = core.Publish(context.Background(), b)
	} else {
		err = core.VerifPublish(context.Background(), b, epf, nil)
	}
	return b, err
}

// ---- afero.MemMapFs with parallel-safe WriteAt ---------------------------------------------------
//
// io.WriterAt allows parallel WriteAt calls on non-overlapping ranges, and datamon's downloads rely on it (as os.File
// honours it). afero's in-memory file implements WriteAt as "store the offset, then Write", which is not atomic: two
// parallel calls can write at each other's offset. Download destinations therefore use this wrapper, which serialises
// WriteAt per file system (a defect of the test double, not of datamon: it showed up once as a rare false alarm).

type safeMemFs struct {
	afero.Fs
	mu *sync.Mutex
}

func newSafeMemMapFs() afero.Fs { return &safeMemFs{Fs: afero.NewMemMapFs(), mu: &sync.Mutex{}} }

type safeMemFile struct {
	afero.File
	mu *sync.Mutex
}

func (f *safeMemFile) WriteAt(b []byte, off int64) (int, error) {
	f.mu.Lock()
	defer f.mu.Unlock()
	return f.File.WriteAt(b, off)
}

func (s *safeMemFs) wrap(f afero.File, err error) (afero.File, error) {
	if err != nil {
		return f, err
	}
	return &safeMemFile{File: f, mu: s.mu}, nil
}

func (s *safeMemFs) Create(name string) (afero.File, error) { return s.wrap(s.Fs.Create(name)) }
func (s *safeMemFs) Open(name string) (afero.File, error)   { return s.wrap(s.Fs.Open(name)) }
func (s *safeMemFs) OpenFile(name string, flag int, perm os.FileMode) (afero.File, error) {
	return s.wrap(s.Fs.OpenFile(name, flag, perm))
}
