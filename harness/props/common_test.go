package props

import (
	"os"
	"testing"

	context2 "github.com/oneconcern/datamon/pkg/context"
	"github.com/oneconcern/datamon/pkg/storage"
	"go.uber.org/zap"
	"verif/harness/lib"
)

// World is the set of shared reference stores of one datamon context.
type World struct {
	Meta, VMeta, Blob, Wal, ReadLog *lib.MemStore
}

func NewWorld() *World {
	return &World{
		Meta: lib.NewMemStore("meta"), VMeta: lib.NewMemStore("vmeta"), Blob: lib.NewMemStore("blob"),
		Wal: lib.NewMemStore("wal"), ReadLog: lib.NewMemStore("readlog"),
	}
}

// Stores returns ungated context stores.
func (w *World) Stores() context2.Stores {
	return context2.NewStores(w.Wal, w.ReadLog, w.Blob, w.Meta, w.VMeta)
}

// Gated returns context stores for one client of a controlled execution; gate lists the store names to gate.
func (w *World) Gated(x *lib.Exec, client int, gate map[string]func(op, key string) bool) context2.Stores {
	wrap := func(name string, s *lib.MemStore) storage.Store {
		f, ok := gate[name]
		if !ok {
			f = func(string, string) bool { return false }
		}
		return &lib.GatedStore{Inner: s, X: x, Client: client, Name: name, Filter: f}
	}
	return context2.NewStores(wrap("wal", w.Wal), wrap("readlog", w.ReadLog), wrap("blob", w.Blob), wrap("meta", w.Meta), wrap("vmeta", w.VMeta))
}

func allCalls(string, string) bool { return true }

var nopLogger = zap.NewNop()

func TestMain(m *testing.M) {
	os.Exit(m.Run())
}
