package props

import (
	"bytes"
	"context"
	"fmt"
	"io"
	"strings"
	"sync"
	"testing"
	"time"

	"github.com/oneconcern/datamon/pkg/cafs"
	"verif/harness/lib"
)

// C01 — the content store returns exactly the bytes stored (E2, exhaustive product over lengths, source chunkings,
// flush concurrency and read styles).

// content patterns
func pattern(kind string, n int, L int) []byte {
	b := make([]byte, n)
	for i := range b {
		switch kind {
		case "pos": // position dependent, period coprime with L
			b[i] = byte((i*7 + i/251 + 1) % 251)
		case "zero": // all full leaves byte-identical
			b[i] = 0
		case "rep": // 2nd leaf equals the 1st, the rest position dependent
			if i < 2*L {
				b[i] = byte((i%L)*3 + 5)
			} else {
				b[i] = byte((i*11 + 3) % 253)
			}
		}
	}
	return b
}

// chunkReader delivers exactly c bytes per Read (no WriterTo): the store sees Write calls of c bytes.
type fixedChunkReader struct {
	data []byte
	c    int
}

func (r *fixedChunkReader) Read(p []byte) (int, error) {
	if len(r.data) == 0 {
		return 0, io.EOF
	}
	n := r.c
	if n > len(r.data) {
		n = len(r.data)
	}
	if n > len(p) {
		n = len(p)
	}
	copy(p, r.data[:n])
	r.data = r.data[n:]
	return n, nil
}

// source builds the reader for a chunking: c>0 fixed chunks, c==0 a bytes.Reader (WriterTo: one single Write),
// c==-1 fill whatever buffer io.Copy offers (32 KiB writes).
func source(data []byte, c int) io.Reader {
	switch {
	case c == 0:
		return bytes.NewReader(data)
	case c < 0:
		return &fixedChunkReader{data: append([]byte(nil), data...), c: 1 << 30}
	default:
		return &fixedChunkReader{data: append([]byte(nil), data...), c: c}
	}
}

func chunkClass(c, L int) string {
	switch {
	case c == 0:
		return "single-write"
	case c < 0:
		return "32k-writes"
	case c < L:
		return "chunk<L"
	case c == L:
		return "chunk=L"
	default:
		return "chunk>L"
	}
}

func lenClass(n, L int) string {
	switch {
	case n == 0:
		return "n=0"
	case n < L:
		return "n<L"
	case n%L == 0:
		return "n=kL"
	default:
		return "n=kL+r"
	}
}

type memWriterAt struct {
	mu  sync.Mutex
	buf []byte
}

// WriteAt is safe for concurrent use (io.WriterAt contract: parallel calls on non-overlapping ranges are allowed).
func (m *memWriterAt) WriteAt(p []byte, off int64) (int, error) {
	m.mu.Lock()
	defer m.mu.Unlock()
	if need := int(off) + len(p); need > len(m.buf) {
		m.buf = append(m.buf, make([]byte, need-len(m.buf))...)
	}
	copy(m.buf[off:], p)
	return len(p), nil
}
func (m *memWriterAt) Write(p []byte) (int, error) { panic("memWriterAt.Write must not be called") }

type plainWriter struct{ buf bytes.Buffer }

func (p *plainWriter) Write(b []byte) (int, error) { return p.buf.Write(b) }

func newFs(store *lib.MemStore, L int, conc, prefetch, cacheBufs int) cafs.Fs {
	fs, err := cafs.New(cafs.LeafSize(uint32(L)), cafs.Backend(store), cafs.ConcurrentFlushes(conc), cafs.Prefetch(prefetch),
		cafs.CacheSize(cacheBufs*L), cafs.Logger(nopLogger))
	if err != nil {
		panic(err)
	}
	return fs
}

// guard runs f and converts a panic into a violation.
func guard(rep *lib.Report, sig string, detail func() string, replay interface{}, f func()) {
	defer func() {
		if r := recover(); r != nil {
			rep.Violate(sig+"|panic", fmt.Sprintf("%s: panic: %v", detail(), r), replay)
		}
	}()
	f()
}

type c01case struct {
	L        int
	N        int
	Pat      string
	Chunks   []int // put chunkings to try
	Concs    []int
	FullRead bool // run the full read battery
}

func c01cases() []c01case {
	var cases []c01case
	thorough := lib.Thorough()
	add := func(L int, ns []int, chunks []int, concs []int) {
		for _, n := range ns {
			for _, p := range []string{"pos", "zero", "rep"} {
				if !thorough && p == "rep" && n < 2*L {
					continue
				}
				cases = append(cases, c01case{L: L, N: n, Pat: p, Chunks: chunks, Concs: concs, FullRead: true})
			}
		}
	}
	rng := func(a, b int) []int {
		var o []int
		for i := a; i <= b; i++ {
			o = append(o, i)
		}
		return o
	}
	bounds := func(L int) []int {
		o := []int{0, 1}
		for k := 1; k <= 6; k++ {
			o = append(o, k*L-1, k*L, k*L+1)
		}
		return o
	}
	if thorough {
		L := 64
		add(L, rng(0, 3*L+1), append(append(rng(1, 2*L+1), 0), -1), []int{1, 2, 3, 16})
		add(L, []int{4*L - 1, 4 * L, 4*L + 1, 5*L + 7, 6 * L, 6*L + 1}, []int{1, 63, 64, 65, 129, 0, -1}, []int{1, 3})
		add(65, bounds(65), []int{1, 64, 65, 66, 131, 0, -1}, []int{1, 3})
		add(100, bounds(100), []int{1, 99, 100, 101, 201, 0, -1}, []int{1, 3})
		add(4096, bounds(4096), []int{1000, 4095, 4096, 4097, 8193, 0, -1}, []int{1, 4})
	} else {
		L := 64
		add(L, []int{0, 1, 63, 64, 65, 127, 128, 129, 191, 192, 193, 200, 384, 385}, []int{1, 7, 63, 64, 65, 100, 128, 129, 0, -1}, []int{1, 3})
		add(100, []int{0, 99, 100, 101, 250, 300}, []int{1, 99, 100, 101, 201, 0, -1}, []int{2})
	}
	return cases
}

func c01big() []c01case {
	// boundary lengths only at the large leaf sizes (thorough)
	var cases []c01case
	for _, L := range []int{1 << 20, 3 << 19, 5 << 20} {
		for _, n := range []int{L - 1, L, L + 1, 2 * L, 2*L + 1} {
			cases = append(cases, c01case{L: L, N: n, Pat: "pos", Chunks: []int{-1, 0, L + 1}, Concs: []int{2}})
		}
	}
	return cases
}

func c01run(rep *lib.Report, c c01case) {
	L, n := c.L, c.N
	data := pattern(c.Pat, n, L)
	ctx := context.Background()
	var refKey cafs.Key
	haveRef := false
	var store *lib.MemStore
	for _, chunk := range c.Chunks {
		for _, conc := range c.Concs {
			st := lib.NewMemStore("blob")
			st.NoJournal = true
			fs := newFs(st, L, conc, 0, 8)
			shape := fmt.Sprintf("%s|%s", chunkClass(chunk, L), lenClass(n, L))
			replay := map[string]interface{}{"L": L, "n": n, "pattern": c.Pat, "chunk": chunk, "flush_concurrency": conc}
			desc := func() string {
				return fmt.Sprintf("Put L=%d n=%d pattern=%s chunk=%d conc=%d", L, n, c.Pat, chunk, conc)
			}
			guard(rep, "C01|put|"+shape, desc, replay, func() {
				res, err := fs.Put(ctx, source(data, chunk))
				rep.Eval(1)
				if err != nil {
					rep.Violate("C01|put|error|"+shape, desc()+": "+err.Error(), replay)
					return
				}
				if res.Written != int64(n) {
					rep.Violate("C01|put|written|"+shape, fmt.Sprintf("%s: Written=%d", desc(), res.Written), replay)
				}
				if !haveRef {
					refKey, haveRef, store = res.Key, true, st
				} else if res.Key != refKey {
					rep.Violate("C01|put|key-depends-on-chunking|"+shape, fmt.Sprintf("%s: key %s differs from the key of the first chunking %s", desc(), res.Key, refKey), replay)
				}
				// sanity read-back through the simplest style for every chunking
				r, err := fs.Get(ctx, res.Key)
				if err != nil {
					rep.Violate("C01|get|error|"+shape, desc()+": "+err.Error(), replay)
					return
				}
				var w plainWriter
				_, err = r.(io.WriterTo).WriteTo(&w)
				if err != nil || !bytes.Equal(w.buf.Bytes(), data) {
					rep.Violate("C01|roundtrip|"+shape, fmt.Sprintf("%s: read back %d bytes err=%v, differs from input", desc(), w.buf.Len(), err), replay)
				}
			})
		}
	}
	rep.Outcome(fmt.Sprintf("L%d|n%d|%s", L, n, c.Pat))
	if haveRef && !c.FullRead {
		// large leaf sizes: a small battery instead of the complete one - sequential Read, and random access inside a
		// leaf, across a leaf boundary and across the end of the object, on a fresh file system object
		replay := map[string]interface{}{"L": L, "n": n, "pattern": c.Pat, "battery": "small (large leaf size)"}
		guard(rep, "C01|big-leaf|"+lenClass(n, L), func() string { return fmt.Sprintf("L=%d n=%d", L, n) }, replay, func() {
			fs := newFs(store, L, 1, 0, 4)
			if r, err := fs.Get(ctx, refKey); err == nil {
				got, rerr := io.ReadAll(plainReader{r})
				rep.Eval(1)
				if rerr != nil || !bytes.Equal(got, data) {
					rep.Violate("C01|Read|big-leaf|"+lenClass(n, L), fmt.Sprintf("L=%d n=%d: sequential Read returned %d bytes, err=%v", L, n, len(got), rerr), replay)
				}
			} else {
				rep.Violate("C01|get|error|big-leaf", err.Error(), replay)
			}
			ra, err := fs.GetAt(ctx, refKey)
			if err != nil {
				rep.Violate("C01|getat|error|big-leaf", err.Error(), replay)
				return
			}
			for _, q := range [][2]int{{0, 10}, {L / 2, 10}, {L - 5, 10}, {n - 3, 10}, {n - 1, 1}, {0, n}} {
				off, l := q[0], q[1]
				if off < 0 || off >= n {
					continue
				}
				buf := make([]byte, l)
				k, err := ra.ReadAt(buf, int64(off))
				rep.Eval(1)
				end := off + l
				if end > n {
					end = n
				}
				if (err != nil && err != io.EOF) || k != end-off || !bytes.Equal(buf[:max0(k)], data[off:end]) {
					rep.Violate("C01|ReadAt|big-leaf|"+lenClass(n, L), fmt.Sprintf("L=%d n=%d: ReadAt(off=%d,len=%d) returned %d bytes, err=%v, want %d bytes of the content", L, n, off, l, k, err, end-off), replay)
					return
				}
			}
		})
	}
	if !haveRef || !c.FullRead {
		return
	}
	shapes := []struct {
		chunks int
		eof    bool
	}{{2, false}, {1, true}}
	if lib.Thorough() && L <= 100 {
		shapes = append(shapes, struct {
			chunks int
			eof    bool
		}{3, true}, struct {
			chunks int
			eof    bool
		}{1, false})
	}
	for _, sh := range shapes {
		store.ReadChunks, store.EOFWithData = sh.chunks, sh.eof
		c01reads(rep, store, refKey, data, L, fmt.Sprintf("%s/blob-reads=%d-eof-with-data=%v", c.Pat, sh.chunks, sh.eof))
	}
}

// c01reads runs the complete read battery against one stored object.
func c01reads(rep *lib.Report, store *lib.MemStore, key cafs.Key, data []byte, L int, pat string) {
	n := len(data)
	ctx := context.Background()
	lc := lenClass(n, L)
	base := map[string]interface{}{"L": L, "n": n, "pattern": pat}
	with := func(k string, v interface{}, k2 string, v2 interface{}) map[string]interface{} {
		m := map[string]interface{}{k: v}
		for a, b := range base {
			m[a] = b
		}
		if k2 != "" {
			m[k2] = v2
		}
		return m
	}
	bufClass := func(b int) string {
		switch {
		case b < L:
			return "buf<L"
		case b == L:
			return "buf=L"
		default:
			return "buf>L"
		}
	}
	thorough := lib.Thorough()
	for _, cfg := range []struct{ prefetch, cache int }{{0, 8}, {1, 1}, {2, 8}} {
		if !thorough && cfg.prefetch == 2 {
			continue
		}
		// --- sequential Read with every buffer size
		bufs := []int{}
		if L <= 100 {
			for b := 1; b <= 2*L+1; b++ {
				if thorough || b <= 3 || (b >= L-1 && b <= L+1) || b >= 2*L-1 || b%17 == 0 {
					bufs = append(bufs, b)
				}
			}
		} else {
			bufs = []int{1000, L - 1, L, L + 1, 2*L + 1}
		}
		if cfg.prefetch == 0 {
			for _, b := range bufs {
				fs := newFs(store, L, 1, cfg.prefetch, cfg.cache)
				sig := fmt.Sprintf("C01|Read|%s|%s", bufClass(b), lc)
				rp := with("style", "Read", "buf", b)
				desc := func() string { return fmt.Sprintf("Read L=%d n=%d pattern=%s buf=%d", L, n, pat, b) }
				guard(rep, sig, desc, rp, func() {
					r, err := fs.Get(ctx, key)
					if err != nil {
						rep.Violate(sig+"|get-error", desc()+": "+err.Error(), rp)
						return
					}
					var got []byte
					p := make([]byte, b)
					stalls := 0
					for iter := 0; ; iter++ {
						k, err := r.Read(p)
						rep.Eval(1)
						if k < 0 || k > len(p) {
							rep.Violate(sig+"|bad-count", fmt.Sprintf("%s: Read returned n=%d", desc(), k), rp)
							return
						}
						got = append(got, p[:k]...)
						if err == io.EOF {
							break
						}
						if err != nil {
							rep.Violate(sig+"|error", fmt.Sprintf("%s: after %d bytes: %v", desc(), len(got), err), rp)
							return
						}
						if k == 0 {
							stalls++
						}
						if stalls > 3 || len(got) > n+2*L+8 {
							rep.Violate(sig+"|no-eof", fmt.Sprintf("%s: no EOF after %d bytes / %d empty reads", desc(), len(got), stalls), rp)
							return
						}
					}
					if !bytes.Equal(got, data) {
						rep.Violate(sig+"|bytes", fmt.Sprintf("%s: got %d bytes, first difference at %d", desc(), len(got), firstDiff(got, data)), rp)
					}
					_ = r.Close()
				})
			}
		}
		// --- ReadAt at every offset, selected lengths, on one shared reader (cache warm-up included) and fresh readers
		lens := []int{0, 1, L - 1, L, L + 1, 2*L + 1, n + 5}
		offs := []int{}
		if L <= 100 {
			for o := 0; o <= n+L+1; o++ {
				offs = append(offs, o)
			}
		} else {
			for k := 0; k*L <= n+L; k++ {
				offs = append(offs, k*L, k*L+1, k*L+L-1)
			}
			offs = append(offs, n-1, n, n+1)
		}
		fs := newFs(store, L, 1, cfg.prefetch, cfg.cache)
		var shared io.ReaderAt
		guard(rep, "C01|GetAt|"+lc, func() string { return fmt.Sprintf("GetAt L=%d n=%d", L, n) }, base, func() {
			var err error
			shared, err = fs.GetAt(ctx, key)
			if err != nil {
				rep.Violate("C01|GetAt|error|"+lc, err.Error(), base)
			}
		})
		if shared == nil {
			continue
		}
		for _, o := range offs {
			if o < 0 {
				continue
			}
			for _, l := range lens {
				if l < 0 {
					continue
				}
				where := "inside"
				switch {
				case o >= n && o < ((n+L-1)/L)*L:
					where = "past-eof-in-last-leaf"
				case o >= n:
					where = "past-eof"
				case o+l > n:
					where = "crossing-eof"
				}
				sig := fmt.Sprintf("C01|ReadAt|%s|%s|prefetch=%d", where, lc, cfg.prefetch)
				rp := with("style", "ReadAt", "off", o)
				rp["len"] = l
				rp["prefetch"] = cfg.prefetch
				desc := func() string {
					return fmt.Sprintf("ReadAt L=%d n=%d pattern=%s off=%d len=%d prefetch=%d cache=%d", L, n, pat, o, l, cfg.prefetch, cfg.cache)
				}
				poisoned := true
				guard(rep, sig, desc, rp, func() {
					defer func() {
						if poisoned { // a panic leaves the leaf buffer pinned: never reuse this reader
							fs = newFs(store, L, 1, cfg.prefetch, cfg.cache)
							shared, _ = fs.GetAt(ctx, key)
						}
					}()
					p := make([]byte, l)
					k, err := shared.ReadAt(p, int64(o))
					poisoned = false
					rep.Eval(1)
					var want []byte
					if o < n {
						end := o + l
						if end > n {
							end = n
						}
						want = data[o:end]
					}
					if k != len(want) || !bytes.Equal(p[:max0(k)], want) {
						rep.Violate(sig+"|bytes", fmt.Sprintf("%s: returned n=%d err=%v, want %d bytes", desc(), k, err, len(want)), rp)
						return
					}
					if err != nil && err != io.EOF {
						rep.Violate(sig+"|error", fmt.Sprintf("%s: %v", desc(), err), rp)
					}
				})
			}
		}
	}
	// --- WriteTo into a plain writer / a WriterAt, io.Copy
	for _, ccw := range []int{1, 3} {
		st := store
		fsw, err := cafs.New(cafs.LeafSize(uint32(L)), cafs.Backend(st), cafs.ReaderConcurrentChunkWrites(ccw), cafs.CacheSize(4*L), cafs.Logger(nopLogger))
		if err != nil {
			panic(err)
		}
		sig := "C01|WriteTo-WriterAt|" + lc
		rp := with("style", "WriteTo(WriterAt)", "concurrent_chunk_writes", ccw)
		guard(rep, sig, func() string { return fmt.Sprintf("WriteTo(WriterAt) L=%d n=%d", L, n) }, rp, func() {
			r, err := fsw.Get(ctx, key)
			if err != nil {
				rep.Violate(sig+"|get-error", err.Error(), rp)
				return
			}
			w := &memWriterAt{}
			k, err := r.(io.WriterTo).WriteTo(w)
			rep.Eval(1)
			if err != nil || k != int64(n) || !bytes.Equal(w.buf, data) {
				rep.Violate(sig+"|bytes", fmt.Sprintf("L=%d n=%d pattern=%s: WriteTo returned (%d,%v), destination has %d bytes, first diff at %d", L, n, pat, k, err, len(w.buf), firstDiff(w.buf, data)), rp)
			}
		})
		sig2 := "C01|io.Copy|" + lc
		guard(rep, sig2, func() string { return fmt.Sprintf("io.Copy L=%d n=%d", L, n) }, rp, func() {
			r, err := fsw.Get(ctx, key)
			if err != nil {
				rep.Violate(sig2+"|get-error", err.Error(), rp)
				return
			}
			var w plainWriter
			k, err := io.Copy(&w, r)
			rep.Eval(1)
			if err != nil || k != int64(n) || !bytes.Equal(w.buf.Bytes(), data) {
				rep.Violate(sig2+"|bytes", fmt.Sprintf("L=%d n=%d pattern=%s: io.Copy returned (%d,%v), got %d bytes", L, n, pat, k, err, w.buf.Len()), rp)
			}
		})
	}
	// --- mixing styles on one reader: a partial sequential Read, then ReadAt, then the rest of the sequential read
	if n > 0 {
		fs := newFs(store, L, 1, 0, 8)
		sig := "C01|mixed-Read-ReadAt|" + lc
		guard(rep, sig, func() string { return fmt.Sprintf("mixed L=%d n=%d", L, n) }, base, func() {
			r, err := fs.Get(ctx, key)
			if err != nil {
				return
			}
			half := make([]byte, (n+1)/2)
			k1, err1 := io.ReadFull(r, half)
			ra := r.(io.ReaderAt)
			p := make([]byte, n)
			k2, _ := ra.ReadAt(p, 0)
			rest, err3 := io.ReadAll(r)
			rep.Eval(1)
			if err1 != nil || k1 != len(half) || k2 != n || !bytes.Equal(p, data) || err3 != nil || !bytes.Equal(append(half, rest...), data) {
				rep.Violate(sig+"|bytes", fmt.Sprintf("L=%d n=%d pattern=%s: half read (%d,%v) ReadAt n=%d rest %d bytes err=%v", L, n, pat, k1, err1, k2, len(rest), err3), base)
			}
		})
	}
}

func max0(k int) int {
	if k < 0 {
		return 0
	}
	return k
}

func firstDiff(a, b []byte) int {
	for i := 0; i < len(a) && i < len(b); i++ {
		if a[i] != b[i] {
			return i
		}
	}
	if len(a) != len(b) {
		if len(a) < len(b) {
			return len(a)
		}
		return len(b)
	}
	return -1
}

func TestC01(t *testing.T) {
	rep := lib.NewReport("C01", "exploration")
	defer rep.Finish(t)
	cases := c01cases()
	if lib.Thorough() {
		cases = append(cases, c01big()...)
	} else {
		// one object at a leaf size above the 2 MiB default (buffers sized for the default must not be assumed)
		L := 2<<20 + 4096
		cases = append(cases, c01case{L: L, N: L + 1, Pat: "pos", Chunks: []int{0}, Concs: []int{2}})
	}
	rep.Rule = "exhaustive product: leaf size x content length (every length 0..3L+1 at L=64 in thorough; boundary lengths otherwise) x content pattern x source chunking (every chunk size 1..2L+1, one single write, 32KiB writes) x flush concurrency; per stored object the full read battery (Read with every buffer size, ReadAt at every offset x 7 lengths x prefetch/cache settings, WriteTo to Writer and WriterAt, io.Copy, mixed styles); plus, at L=64, a second Put of the content into a store that already holds a damaged copy (emptied; with a CRC-reporting backend also cut short / altered) of each one of its blobs: acknowledged only if it then reads back exactly; distinct = distinct (L, n, pattern) objects; evaluations = Put calls + individual read calls"
	rep.Assume("reference store = in-memory map with GCS-like contract (harness/lib/memstore.go); blobs are delivered in >=2 Read calls followed by a separate (0,EOF)")
	parent := lib.RunCases(t, rep, "TestC01", len(cases), 0, 60*time.Second, func(i int) { c01run(rep, cases[i]) },
		func(i int, how, output string) {
			c := cases[i]
			kind := "hang"
			if !strings.HasPrefix(how, "hang") {
				kind = "fatal"
			}
			rep.Violate(fmt.Sprintf("C01|%s|%s", kind, lenClass(c.N, c.L)), fmt.Sprintf("worker %s while running case L=%d n=%d pattern=%s chunkings=%v: %s", how, c.L, c.N, c.Pat, c.Chunks, output),
				map[string]interface{}{"L": c.L, "n": c.N, "pattern": c.Pat, "chunks": c.Chunks})
		})
	if parent {
		rep.Set("cases", len(cases))
		rep.Sample(map[string]interface{}{"first_case": cases[0], "last_case": cases[len(cases)-1]})
		c01repair(rep)
	}
}

// c01repair: the store already holds a damaged copy of one blob of the content (the leftover of an upload that died while
// writing it: empty, cut short, or altered). Storing the content again is acknowledged only if reading it back (through a
// new file system object) then yields the original bytes. cafs detects an empty blob on every backend and any other
// damage on backends that report a CRC32C (pkg/cafs/check_blob.go), so only those combinations are required to repair.
func c01repair(rep *lib.Report) {
	ctx := context.Background()
	L := 64
	n := 0
	for _, size := range []int{1, L, L + 36, 3 * L, 3*L + 5} {
		data := pattern("pos", size, L)
		for _, crc := range []bool{true, false} {
			base := lib.NewMemStore("blob")
			base.NoCRC, base.NoJournal = !crc, true
			res, err := newFs(base, L, 1, 0, 4).Put(ctx, bytes.NewReader(data))
			if err != nil {
				panic(err)
			}
			for _, k := range base.RawKeys() {
				orig, _ := base.RawGet(k)
				role := "leaf"
				if strings.Contains(k, res.Key.String()) {
					role = "root"
				}
				damages := map[string][]byte{"emptied": {}}
				if crc {
					damages["cut-short"] = orig[:len(orig)/2]
					fl := append([]byte(nil), orig...)
					fl[len(fl)/2] ^= 0x10
					damages["altered"] = fl
				}
				for dname, d := range damages {
					if bytes.Equal(d, orig) {
						continue
					}
					st := base.Clone()
					st.RawSet(k, d)
					desc := fmt.Sprintf("n=%d crc=%v %s blob %s.. (%d bytes) %s, then Put again", size, crc, role, k[:8], len(orig), dname)
					rp := map[string]interface{}{"n": size, "crc": crc, "blob": k, "damage": dname}
					guard(rep, "C01|re-put-over-damaged-blob|"+role+"|"+dname, func() string { return desc }, rp, func() {
						res2, perr := newFs(st, L, 2, 0, 4).Put(ctx, bytes.NewReader(data))
						rep.Eval(1)
						n++
						if perr != nil {
							return // not acknowledged
						}
						r, err := newFs(st, L, 1, 0, 4).Get(ctx, res2.Key)
						var got []byte
						if err == nil {
							got, err = io.ReadAll(r)
						}
						if err != nil || !bytes.Equal(got, data) || res2.Key != res.Key {
							rep.Violate(fmt.Sprintf("C01|re-put-over-damaged-blob|%s|%s|crc=%v|acknowledged-but-unreadable", role, dname, crc), fmt.Sprintf("%s: Put returned nil (key %s), reading back through a new file system object gives %d bytes, err=%v", desc, res2.Key, len(got), err), rp)
						}
					})
				}
			}
		}
	}
	rep.Set("re_puts_over_a_damaged_blob", n)
}
