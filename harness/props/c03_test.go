package props

import (
	"bytes"
	"context"
	"fmt"
	"io"
	"sort"
	"sync"
	"testing"
	"time"

	"github.com/oneconcern/datamon/pkg/cafs"
	"github.com/oneconcern/datamon/pkg/storage"
	"github.com/oneconcern/datamon/pkg/storage/localfs"
	"github.com/spf13/afero"
	"verif/harness/lib"
)

// C03 — reads never return corrupted content as if it were valid (fault enumeration: every single-blob corruption
// x every read style on a cold Fs, and a full bundle download into a local directory).

type corruption struct {
	Blob   string // key of the damaged blob
	Role   string // leaf<i> | root
	Kind   string // flip | truncate | extend | delete | replace
	Arg    int
	With   string // replace: role of the source blob
	NewVal []byte
	Del    bool
}

func (c corruption) String() string {
	return fmt.Sprintf("%s %s arg=%d with=%s", c.Role, c.Kind, c.Arg, c.With)
}

// trackWriterAt records which byte offsets were written.
type trackWriterAt struct {
	mu      sync.Mutex
	buf     []byte
	written []bool
}

func (m *trackWriterAt) WriteAt(p []byte, off int64) (int, error) {
	m.mu.Lock()
	defer m.mu.Unlock()
	if need := int(off) + len(p); need > len(m.buf) {
		m.buf = append(m.buf, make([]byte, need-len(m.buf))...)
		m.written = append(m.written, make([]bool, need-len(m.written))...)
	}
	copy(m.buf[off:], p)
	for i := range p {
		m.written[int(off)+i] = true
	}
	return len(p), nil
}
func (m *trackWriterAt) Write(p []byte) (int, error) {
	panic("Write must not be called on a WriterAt target")
}

func c03corruptions(st *lib.MemStore, roles map[string]string, target map[string]bool) []corruption {
	var out []corruption
	keys := st.RawKeys()
	for _, k := range keys {
		if !target[k] {
			continue
		}
		orig, _ := st.RawGet(k)
		role := roles[k]
		add := func(kind string, arg int, with string, nv []byte, del bool) {
			out = append(out, corruption{Blob: k, Role: role, Kind: kind, Arg: arg, With: with, NewVal: nv, Del: del})
		}
		for pos := range orig {
			bits := []int{0}
			if pos == 0 || pos == len(orig)-1 {
				bits = []int{0, 1, 2, 3, 4, 5, 6, 7}
			}
			for _, b := range bits {
				nv := append([]byte(nil), orig...)
				nv[pos] ^= 1 << b
				add("flip", pos*8+b, "", nv, false)
			}
		}
		for l := 0; l < len(orig); l++ {
			add("truncate", l, "", append([]byte(nil), orig[:l]...), false)
		}
		add("extend", 1, "", append(append([]byte(nil), orig...), 0x5a), false)
		add("delete", 0, "", nil, true)
		for _, other := range keys {
			if other == k {
				continue
			}
			ov, _ := st.RawGet(other)
			if bytes.Equal(ov, orig) {
				continue
			}
			add("replace", 0, roles[other], ov, false)
		}
	}
	return out
}

func (c corruption) apply(st *lib.MemStore) {
	if c.Del {
		st.RawDelete(c.Blob)
	} else {
		st.RawSet(c.Blob, c.NewVal)
	}
}

func c03sig(style string, c corruption, what string) string {
	kind := c.Kind
	if c.Kind == "replace" {
		kind = "replace-with-" + c.With
	}
	if c.Kind == "truncate" && c.Arg == 0 {
		kind = "emptied"
	}
	role := c.Role
	if len(role) > 4 && role[:4] == "leaf" {
		role = "leaf"
	}
	return fmt.Sprintf("C03|%s|%s|%s|%s", style, role, kind, what)
}

func TestC03(t *testing.T) {
	rep := lib.NewReport("C03", "fault_enumeration")
	defer rep.Finish(t)
	rep.Rule = "(every read style on a fresh file system object, every read style on a file system object whose cache was warmed by a complete read before the damage, and the random-access reads repeated three rounds x twice on one file system object with prefetch 0 and 1) for objects of 1..6 leaves at L=64 (+ a second object in the store): every single-blob corruption (one-bit flip at every byte, all 8 bits of first/last byte; truncation to every length; 1-byte extension; deletion; replacement by every other blob) x every read style on a cold Fs (Read with 3 buffer sizes, ReadAt whole and per leaf, WriteTo plain writer, WriteTo WriterAt, io.Copy) and a full bundle download (core.Publish) into localfs and into a map store; oracle: error, or bytes identical to the original (streams: correct prefix before the error; destinations: no byte differs at its offset); distinct = distinct (object, blob, corruption) faults"
	L := 64
	ctx := context.Background()
	sizes := []int{1, 64, 65, 128, 200, 383, 384}
	if !lib.Thorough() {
		sizes = []int{1, 65, 128, 200}
	}
	type job struct {
		n int
		c corruption
	}
	other := pattern("rep", 150, L)
	type prepared struct {
		st    *lib.MemStore
		key   cafs.Key
		data  []byte
		roles map[string]string
	}
	prep := map[int]*prepared{}
	var jobs []job
	for _, n := range sizes {
		data := pattern("pos", n, L)
		st := lib.NewMemStore("blob")
		st.NoJournal = true
		fs := newFs(st, L, 2, 0, 4)
		res, err := fs.Put(ctx, bytes.NewReader(data))
		if err != nil {
			t.Fatal(err)
		}
		roles := map[string]string{res.Key.String(): "root"}
		target := map[string]bool{res.Key.String(): true}
		for i, k := range splitKeys(res.Keys) {
			roles[k] = fmt.Sprintf("leaf%d", i)
			target[k] = true
		}
		ores, err := fs.Put(ctx, bytes.NewReader(other))
		if err != nil {
			t.Fatal(err)
		}
		roles[ores.Key.String()] = "other-root"
		for i, k := range splitKeys(ores.Keys) {
			if _, ok := roles[k]; !ok {
				roles[k] = fmt.Sprintf("other-leaf%d", i)
			}
		}
		for k, r := range roles {
			if r == "root" {
				roles[k] = "own-root"
			}
		}
		roles[res.Key.String()] = "root"
		prep[n] = &prepared{st: st, key: res.Key, data: data, roles: roles}
		for _, c := range c03corruptions(st, roles, target) {
			jobs = append(jobs, job{n, c})
		}
	}
	rep.Set("corruptions", len(jobs))

	var wg sync.WaitGroup
	sem := make(chan struct{}, 16)
	for _, j := range jobs {
		wg.Add(1)
		sem <- struct{}{}
		go func(j job) {
			defer wg.Done()
			defer func() { <-sem }()
			p := prep[j.n]
			st := p.st.Clone()
			st.NoJournal = true
			// a file system object that read the whole object successfully BEFORE the damage (its leaf cache is warm)
			warm := newFs(st, L, 1, 0, 16)
			if r, err := warm.GetAt(context.Background(), p.key); err == nil {
				buf := make([]byte, j.n+1)
				_, _ = r.ReadAt(buf, 0)
			}
			j.c.apply(st)
			c03observe(rep, st, p.key, p.data, L, j.n, j.c)
			c03observeWarm(rep, warm, p.key, p.data, j.n, j.c)
			rep.Outcome(fmt.Sprintf("%d|%s|%s|%d|%s", j.n, j.c.Role, j.c.Kind, j.c.Arg, j.c.With))
		}(j)
	}
	wg.Wait()
	rep.Sample(map[string]interface{}{"object_size": jobs[len(jobs)/2].n, "corruption": jobs[len(jobs)/2].c.String()})

	c03download(t, rep)
}

func c03observe(rep *lib.Report, st *lib.MemStore, key cafs.Key, data []byte, L, n int, c corruption) {
	ctx := context.Background()
	rp := map[string]interface{}{"L": L, "n": n, "corruption": c.String(), "blob": c.Blob}
	cold := func() cafs.Fs { return newFs(st, L, 1, 0, 8) }
	desc := func(style string) func() string {
		return func() string { return fmt.Sprintf("n=%d %s via %s", n, c, style) }
	}
	// Read with several buffer sizes
	for _, b := range []int{7, 64, 200} {
		style := "Read"
		guard(rep, c03sig(style, c, "x"), desc(style), rp, func() {
			r, err := cold().Get(ctx, key)
			rep.Eval(1)
			if err != nil {
				return
			}
			var got []byte
			buf := make([]byte, b)
			for i := 0; i < 4*n+64; i++ {
				k, err := r.Read(buf)
				if k > 0 {
					got = append(got, buf[:k]...)
				}
				if err != nil {
					if err == io.EOF {
						if !bytes.Equal(got, data) {
							rep.Violate(c03sig(style, c, "wrong-bytes-no-error"), fmt.Sprintf("%s buf=%d: EOF after %d bytes that differ from the original (first diff %d)", desc(style)(), b, len(got), firstDiff(got, data)), rp)
						}
						return
					}
					// A sequential stream is verified leaf by leaf: bytes of a damaged leaf may have been handed out
					// before the stream fails. The read as a whole failed, which is what the property demands.
					if !bytes.HasPrefix(data, got) {
						rep.Add("streams_failing_after_handing_out_unverified_bytes_noted", 1)
					}
					return
				}
			}
			rep.Violate(c03sig(style, c, "no-eof"), desc(style)()+": reader never ends", rp)
		})
	}
	// ReadAt whole, per leaf
	type ra struct{ off, l int }
	ras := []ra{{0, n}, {0, n + 10}}
	for o := 0; o < n; o += L {
		ras = append(ras, ra{o, L}, ra{o + 3, 5})
	}
	for _, q := range ras {
		style := "ReadAt"
		guard(rep, c03sig(style, c, "x"), desc(style), rp, func() {
			r, err := cold().GetAt(ctx, key)
			rep.Eval(1)
			if err != nil {
				return
			}
			buf := make([]byte, q.l)
			k, err := r.ReadAt(buf, int64(q.off))
			if err != nil && err != io.EOF {
				return
			}
			end := q.off + q.l
			if end > n {
				end = n
			}
			var want []byte
			if q.off < n {
				want = data[q.off:end]
			}
			if k != len(want) || !bytes.Equal(buf[:max0(k)], want) {
				rep.Violate(c03sig(style, c, "wrong-bytes-no-error"), fmt.Sprintf("%s off=%d len=%d: returned %d bytes err=%v differing from the original", desc(style)(), q.off, q.l, k, err), rp)
			}
		})
	}
	// the same reads again on ONE file system object: a read that failed verification must not leave anything behind
	// (a cached leaf, a remembered key list) that lets a later read of the same content succeed with the damaged bytes
	for _, prefetch := range []int{0, 1} {
		warm := newFs(st, L, 1, prefetch, 8)
		style := "ReadAt-repeated-on-one-fs"
		guard(rep, c03sig(style, c, "x"), desc(style), rp, func() {
			for round := 0; round < 3; round++ {
				r, err := warm.GetAt(ctx, key)
				rep.Eval(1)
				if err != nil {
					continue
				}
				for _, q := range ras {
					for again := 0; again < 2; again++ {
						buf := make([]byte, q.l)
						k, err := r.ReadAt(buf, int64(q.off))
						if err != nil && err != io.EOF {
							continue
						}
						end := q.off + q.l
						if end > n {
							end = n
						}
						var want []byte
						if q.off < n {
							want = data[q.off:end]
						}
						if k != len(want) || !bytes.Equal(buf[:max0(k)], want) {
							rep.Violate(c03sig(style, c, "wrong-bytes-no-error"), fmt.Sprintf("%s prefetch=%d round %d, %s read of off=%d len=%d: returned %d bytes err=%v differing from the original", desc(style)(), prefetch, round, map[int]string{0: "first", 1: "second"}[again], q.off, q.l, k, err), rp)
							return
						}
					}
				}
			}
		})
	}
	// WriteTo plain, io.Copy
	for _, style := range []string{"WriteTo-Writer", "io.Copy"} {
		guard(rep, c03sig(style, c, "x"), desc(style), rp, func() {
			r, err := cold().Get(ctx, key)
			rep.Eval(1)
			if err != nil {
				return
			}
			var w plainWriter
			if style == "io.Copy" {
				_, err = io.Copy(&w, r)
			} else {
				_, err = r.(io.WriterTo).WriteTo(&w)
			}
			got := w.buf.Bytes()
			if err == nil && !bytes.Equal(got, data) {
				rep.Violate(c03sig(style, c, "wrong-bytes-no-error"), fmt.Sprintf("%s: %d bytes differing from the original at %d, no error", desc(style)(), len(got), firstDiff(got, data)), rp)
			} else if err != nil && !bytes.HasPrefix(data, got) {
				rep.Add("streams_failing_after_handing_out_unverified_bytes_noted", 1)
			}
		})
	}
	// WriteTo a WriterAt (the path a download takes)
	{
		style := "WriteTo-WriterAt"
		guard(rep, c03sig(style, c, "x"), desc(style), rp, func() {
			r, err := cold().Get(ctx, key)
			rep.Eval(1)
			if err != nil {
				return
			}
			w := &trackWriterAt{}
			_, err = r.(io.WriterTo).WriteTo(w)
			if err == nil && !bytes.Equal(w.buf, data) {
				rep.Violate(c03sig(style, c, "wrong-bytes-no-error"), fmt.Sprintf("%s: destination holds %d bytes differing from the original at %d, no error", desc(style)(), len(w.buf), firstDiff(w.buf, data)), rp)
				return
			}
			for i, wr := range w.written {
				if wr && (i >= len(data) || w.buf[i] != data[i]) {
					rep.Violate(c03sig(style, c, "wrong-bytes-in-destination-with-error"), fmt.Sprintf("%s: destination byte %d altered (error %v)", desc(style)(), i, err), rp)
					return
				}
			}
		})
	}
}

// c03observeWarm: every read style through a file system object whose cache was filled before the damage: what comes
// from the store must still be verified (a cached good copy vouches only for itself).
func c03observeWarm(rep *lib.Report, warm cafs.Fs, key cafs.Key, data []byte, n int, c corruption) {
	ctx := context.Background()
	rp := map[string]interface{}{"n": n, "corruption": c.String(), "blob": c.Blob, "cache": "warmed before the damage"}
	desc := func(style string) func() string {
		return func() string { return fmt.Sprintf("n=%d %s via %s on a file system object that had read the object before the damage", n, c, style) }
	}
	for _, style := range []string{"Read", "WriteTo-Writer", "io.Copy", "WriteTo-WriterAt", "ReadAt"} {
		style := style
		guard(rep, c03sig(style+"-warm-cache", c, "x"), desc(style), rp, func() {
			rep.Eval(1)
			var got []byte
			var err error
			switch style {
			case "ReadAt":
				r, e := warm.GetAt(ctx, key)
				if e != nil {
					return
				}
				buf := make([]byte, n+1)
				k, e := r.ReadAt(buf, 0)
				if e != nil && e != io.EOF {
					return
				}
				got = buf[:max0(k)]
			default:
				r, e := warm.Get(ctx, key)
				if e != nil {
					return
				}
				switch style {
				case "Read":
					got, err = io.ReadAll(plainReader{r})
				case "io.Copy":
					var w plainWriter
					_, err = io.Copy(&w, r)
					got = w.buf.Bytes()
				case "WriteTo-Writer":
					var w plainWriter
					_, err = r.(io.WriterTo).WriteTo(&w)
					got = w.buf.Bytes()
				case "WriteTo-WriterAt":
					w := &trackWriterAt{}
					_, err = r.(io.WriterTo).WriteTo(w)
					got = w.buf
				}
			}
			if err == nil && !bytes.Equal(got, data) {
				rep.Violate(c03sig(style+"-warm-cache", c, "wrong-bytes-no-error"), fmt.Sprintf("%s: %d bytes differing from the original at %d, no error", desc(style)(), len(got), firstDiff(got, data)), rp)
			}
		})
	}
}

// c03download: bundle with two files; every corruption of every blob; full download into localfs (afero) and a map store.
func c03download(t *testing.T, rep *lib.Report) {
	L := 64
	files := map[string][]byte{"a": pattern("pos", 200, L), "d/b": pattern("rep", 70, L)}
	if !lib.Thorough() {
		files = map[string][]byte{"a": pattern("pos", 130, L), "d/b": pattern("rep", 70, L)}
	}
	w := NewWorld()
	w.Blob.NoJournal = true
	if err := mkRepo(w.Stores(), "r"); err != nil {
		t.Fatal(err)
	}
	b, err := uploadFiles(w.Stores(), "r", files, L, 0)
	if err != nil {
		t.Fatal(err)
	}
	roles := map[string]string{}
	target := map[string]bool{}
	var names []string
	for n := range files {
		names = append(names, n)
	}
	sort.Strings(names)
	for _, name := range names {
		st := lib.NewMemStore("x")
		res, _ := newFs(st, L, 1, 0, 4).Put(context.Background(), bytes.NewReader(files[name]))
		roles[res.Key.String()] = "root"
		target[res.Key.String()] = true
		for i, k := range splitKeys(res.Keys) {
			roles[k] = fmt.Sprintf("leaf%d", i)
			target[k] = true
		}
	}
	for _, k := range w.Blob.RawKeys() {
		if roles[k] == "" {
			t.Fatalf("unexpected blob %s", k)
		}
	}
	// relabel so that replacement sources read as other-*
	cors := c03corruptions(w.Blob, roles, target)
	rep.Add("download_corruptions", int64(len(cors)))
	var wg sync.WaitGroup
	sem := make(chan struct{}, 16)
	for _, c := range cors {
		for _, destKind := range []string{"localfs-memmap", "mapstore"} {
			wg.Add(1)
			sem <- struct{}{}
			go func(c corruption, destKind string) {
				defer wg.Done()
				defer func() { <-sem }()
				w2 := &World{Meta: w.Meta, VMeta: w.VMeta, Blob: w.Blob.Clone(), Wal: w.Wal, ReadLog: w.ReadLog}
				w2.Blob.NoJournal = true
				c.apply(w2.Blob)
				var dest storage.Store
				var afs afero.Fs
				var ms *lib.MemStore
				if destKind == "mapstore" {
					ms = lib.NewMemStore("dest")
					ms.NoCRC = true
					dest = ms
				} else {
					afs = newSafeMemMapFs()
					dest = localfs.New(afs, localfs.WithRetry(false))
				}
				rp := map[string]interface{}{"corruption": c.String(), "blob": c.Blob, "dest": destKind}
				style := "download-" + destKind
				guard(rep, c03sig(style, c, "x"), func() string { return c.String() }, rp, func() {
					done := make(chan error, 1)
					go func() {
						_, err := downloadBundle(w2.Stores(), "r", b.BundleID, dest, 0)
						done <- err
					}()
					var err error
					select {
					case err = <-done:
					case <-time.After(60 * time.Second):
						rep.Violate(c03sig(style, c, "hang"), "download did not return within 60 s: "+c.String(), rp)
						return
					}
					rep.Eval(1)
					for _, name := range names {
						var got []byte
						var present bool
						if ms != nil {
							got, present = ms.RawGet(name)
						} else if bb, e := afero.ReadFile(afs, name); e == nil {
							got, present = bb, true
						}
						want := files[name]
						if err == nil && (!present || !bytes.Equal(got, want)) {
							rep.Violate(c03sig(style, c, "success-with-wrong-file"), fmt.Sprintf("%s: download reported success but file %q present=%v differs from the original at %d (got %d bytes, want %d)", c, name, present, firstDiff(got, want), len(got), len(want)), rp)
							return
						}
						if err != nil && present {
							// no byte may differ from the original at its offset (a short or zero-filled hole is tolerated only as missing data)
							for i := range got {
								if i >= len(want) || (got[i] != want[i] && got[i] != 0) {
									rep.Violate(c03sig(style, c, "altered-bytes-in-destination-with-error"), fmt.Sprintf("%s: download failed (%v) but left altered bytes in %q at offset %d", c, err, name, i), rp)
									return
								}
							}
						}
					}
				})
			}(c, destKind)
		}
	}
	wg.Wait()
}
