package props

import (
	"bytes"
	"context"
	"errors"
	"fmt"
	storagestatus "github.com/oneconcern/datamon/pkg/storage/status"
	"io"
	"os"
	"path/filepath"
	"runtime"
	"sort"
	"strconv"
	"strings"
	"sync"
	"testing"
	"testing/iotest"
	"time"

	"github.com/oneconcern/datamon/pkg/storage"
	"github.com/oneconcern/datamon/pkg/storage/localfs"
	"github.com/spf13/afero"
	"verif/harness/lib"
)

// C16 — the local filesystem store behaves like an object store.
// E2: every state over a 7-key universe (absent / d1 / d2 per key) is built on a fresh store; in every state the full
//     observer battery runs (Get/Has/GetAttr of every key, Has of every proper path prefix of the keys, Keys, KeysPrefix for 7 prefixes x 2 delimiters x every page
//     size, paginated to the end) and every single operation is applied and compared with a map model.
// E1: 2..3 concurrent exclusive Puts to one key (+ a reader), afero calls gated, all interleavings.

var c16keys = []string{"x/a", "x/ab", "x/a.b", "x.y/a", "xy/a", "x/b/c", "z"}
var c16data = map[int][]byte{1: []byte("d1"), 2: []byte("data-two")}

func c16scratch() (string, func()) {
	base := ""
	if st, err := os.Stat("/dev/shm"); err == nil && st.IsDir() {
		base = "/dev/shm"
	}
	dir, err := os.MkdirTemp(base, "verif-c16-")
	if err != nil {
		panic(err)
	}
	return dir, func() { os.RemoveAll(dir) }
}

type c16backend struct {
	name string
	mk   func() (afero.Fs, func())
}

var c16backends = []c16backend{
	{"osfs", func() (afero.Fs, func()) {
		dir, clean := c16scratch()
		return afero.NewBasePathFs(afero.NewOsFs(), dir), clean
	}},
	// MemMapFs keeps relative and absolute names in separate namespaces; datamon always roots localfs with a BasePathFs
	// (where "x/a" and "/x/a" are the same file), so the in-memory backend is rooted the same way.
	{"memmapfs", func() (afero.Fs, func()) {
		m := afero.NewMemMapFs()
		_ = m.MkdirAll("/base", 0o755) // the root directory of a store always exists
		return afero.NewBasePathFs(m, "/base"), func() {}
	}},
}

func c16build(fs afero.Fs, state []int) (storage.Store, map[string][]byte, error) {
	st := localfs.New(fs, localfs.WithRetry(false), localfs.WithLogger(nopLogger))
	model := map[string][]byte{}
	for i, v := range state {
		if v == 0 {
			continue
		}
		if err := st.Put(context.Background(), c16keys[i], bytes.NewReader(c16data[v]), storage.NoOverWrite); err != nil {
			return nil, nil, fmt.Errorf("building state: Put(%s): %w", c16keys[i], err)
		}
		model[c16keys[i]] = c16data[v]
	}
	return st, model, nil
}

func modelKeys(m map[string][]byte) []string {
	var ks []string
	for k := range m {
		ks = append(ks, k)
	}
	sort.Strings(ks)
	return ks
}

// c16list paginates KeysPrefix to the end.
func c16list(st storage.Store, prefix, delim string, page int) ([]string, error) {
	var out []string
	token := ""
	for i := 0; i < 64; i++ {
		ks, next, err := st.KeysPrefix(context.Background(), token, prefix, delim, page)
		if err != nil {
			return out, err
		}
		out = append(out, ks...)
		if next == "" {
			return out, nil
		}
		token = next
	}
	return out, fmt.Errorf("pagination does not terminate")
}

func c16prefixClass(prefix string, keys []string) string {
	cls := "prefix=" + prefix
	return cls
}

func c16battery(rep *lib.Report, be string, st storage.Store, model map[string][]byte, stateDesc string) {
	ctx := context.Background()
	rp := map[string]interface{}{"backend": be, "state": stateDesc}
	viol := func(sig, detail string) { rep.Violate("C16|"+sig+"|backend="+be, "state {"+stateDesc+"}: "+detail, rp) }
	for _, k := range c16keys {
		want, exists := model[k]
		c20try(rep, "C16|Get|backend="+be, k, func() {
			has, err := st.Has(ctx, k)
			rep.Eval(1)
			if err != nil || has != exists {
				viol("Has", fmt.Sprintf("Has(%s)=%v,%v want %v", k, has, err, exists))
			}
			r, err := st.Get(ctx, k)
			var got []byte
			if err == nil {
				got, err = io.ReadAll(r)
				r.Close()
			}
			if exists && (err != nil || !bytes.Equal(got, want)) {
				viol("Get", fmt.Sprintf("Get(%s)=%q,%v want %q", k, got, err, want))
			}
			if !exists && err == nil {
				viol("Get-missing-succeeds", fmt.Sprintf("Get(%s) of a missing key returned %q", k, got))
			}
			a, err := st.GetAttr(ctx, k)
			if exists && (err != nil || a.Size != int64(len(want))) {
				viol("GetAttr", fmt.Sprintf("GetAttr(%s)=%+v,%v", k, a, err))
			}
			if !exists && err == nil {
				viol("GetAttr-missing-succeeds", k)
			}
		})
	}
	// names that are proper path prefixes of keys (directories of the backing file system) are not objects
	dirs := map[string]bool{}
	for _, k := range c16keys {
		for i := range k {
			if k[i] == '/' {
				dirs[k[:i]] = true
			}
		}
	}
	for d := range dirs {
		if _, isKey := model[d]; isKey {
			continue
		}
		d := d
		c20try(rep, "C16|Has-of-a-path-prefix|backend="+be, d, func() {
			has, err := st.Has(ctx, d)
			rep.Eval(1)
			if err == nil && has {
				viol("Has-of-a-path-prefix", fmt.Sprintf("Has(%s)=true: no such object was ever stored (it is only a proper path prefix of the keys)", d))
			}
		})
	}
	c20try(rep, "C16|Keys|backend="+be, "", func() {
		ks, err := st.Keys(ctx)
		rep.Eval(1)
		sort.Strings(ks)
		if err != nil || strings.Join(ks, ",") != strings.Join(modelKeys(model), ",") {
			viol("Keys", fmt.Sprintf("Keys()=%v,%v want %v", ks, err, modelKeys(model)))
		}
	})
	for _, prefix := range []string{"", "x", "x/", "x/a", "x.", "x/b/", "nope/"} {
		for _, delim := range []string{"", "/"} {
			want := lib.ListRef(modelKeys(model), prefix, delim)
			for page := 1; page <= len(c16keys)+1; page++ {
				c20try(rep, fmt.Sprintf("C16|KeysPrefix|prefix=%q|delim=%q|backend=%s", prefix, delim, be), fmt.Sprintf("page=%d", page), func() {
					got, err := c16list(st, prefix, delim, page)
					rep.Eval(1)
					if err != nil {
						viol(fmt.Sprintf("KeysPrefix-error|prefix=%q|delim=%q", prefix, delim), fmt.Sprintf("page=%d: %v", page, err))
						return
					}
					if strings.Join(got, ",") == strings.Join(want, ",") {
						return
					}
					// classify: extra / missing / duplicates / order
					gs := append([]string(nil), got...)
					sort.Strings(gs)
					kind := "order"
					set := map[string]int{}
					for _, g := range got {
						set[g]++
					}
					dup := false
					for _, n := range set {
						if n > 1 {
							dup = true
						}
					}
					var extra, missing []string
					wset := map[string]bool{}
					for _, w := range want {
						wset[w] = true
						if set[w] == 0 {
							missing = append(missing, w)
						}
					}
					for g := range set {
						if !wset[g] {
							extra = append(extra, g)
						}
					}
					switch {
					case len(extra) > 0:
						kind = "extra-keys"
					case len(missing) > 0:
						kind = "missing-keys"
					case dup:
						kind = "duplicates"
					}
					viol(fmt.Sprintf("KeysPrefix-%s|prefix=%q|delim=%q", kind, prefix, delim), fmt.Sprintf("page=%d: got %v want %v", page, got, want))
				})
			}
		}
	}
}

func c16stateDesc(state []int) string {
	var p []string
	for i, v := range state {
		if v != 0 {
			p = append(p, fmt.Sprintf("%s=d%d", c16keys[i], v))
		}
	}
	return strings.Join(p, " ")
}

func TestC16(t *testing.T) {
	rep := lib.NewReport("C16", "model_checking")
	defer rep.Finish(t)
	nk := len(c16keys)
	if !lib.Thorough() {
		nk = 5
	}
	rep.Rule = fmt.Sprintf("(a) all 3^%d states over keys %v (absent/d1/d2) on afero OsFs and MemMapFs: full observer battery in every state (Get/Has/GetAttr of every key, Has of every proper path prefix of the keys, Keys, KeysPrefix x 7 prefixes x 2 delimiters x every page size, paginated) and every transition (Put excl/overwrite of each key and datum from an io.WriterTo / a plain reader / a reader delivering its last bytes with EOF, Delete of each key and of each name that is a proper path prefix of keys, an abandoned first listing page followed by a mutation and a fresh listing) compared with a map model; (b) 2..3 concurrent exclusive Puts of different bytes to one key, afero calls gated, all interleavings; (c) one Put (overwrite with a shorter / longer value, or exclusive create; with and without the store's lock option) concurrent with one Get+read of the same key through the same store object, afero open/read/write/close calls gated, all interleavings: the read returns the previous or the new object, never anything else; plus, sequentially and with/without the store's lock option: Get, overwrite, then consume the reader; distinct = distinct (backend,state)", nk, c16keys[:nk])
	total := 1
	for i := 0; i < nk; i++ {
		total *= 3
	}
	type job struct {
		be    c16backend
		state []int
	}
	var jobs []job
	for _, be := range c16backends {
		for n := 0; n < total; n++ {
			state := make([]int, len(c16keys))
			m := n
			for i := 0; i < nk; i++ {
				state[i] = m % 3
				m /= 3
			}
			jobs = append(jobs, job{be, state})
		}
	}
	var wg sync.WaitGroup
	sem := make(chan struct{}, 16)
	var transitions int64
	var tmu sync.Mutex
	for _, j := range jobs {
		wg.Add(1)
		sem <- struct{}{}
		go func(j job) {
			defer wg.Done()
			defer func() { <-sem }()
			desc := c16stateDesc(j.state)
			rp := map[string]interface{}{"backend": j.be.name, "state": desc}
			fs, clean := j.be.mk()
			st, model, err := c16build(fs, j.state)
			if err != nil {
				rep.Violate("C16|build|backend="+j.be.name, desc+": "+err.Error(), rp)
				clean()
				return
			}
			c16battery(rep, j.be.name, st, model, desc)
			clean()
			rep.Outcome(j.be.name + "|" + desc)
			// transitions: each op from this state on a fresh instance
			ctx := context.Background()
			type op struct {
				name string
				do   func(st storage.Store, m map[string][]byte) string
			}
			var ops []op
			for ki := 0; ki < nk; ki++ {
				k := c16keys[ki]
				for v := 1; v <= 2; v++ {
					d := c16data[v]
					for _, excl := range []bool{true, false} {
						excl := excl
						ops = append(ops, op{fmt.Sprintf("Put(%s,d%d,excl=%v)", k, v, excl), func(st storage.Store, m map[string][]byte) string {
							// the three shapes a source may have: an io.WriterTo, a plain reader ending with (0, EOF), a plain
							// reader delivering its last bytes together with EOF (rotated over keys and data)
							var src io.Reader = bytes.NewReader(d)
							switch (ki + v) % 3 {
							case 1:
								src = plainReader{bytes.NewReader(d)}
							case 2:
								src = iotest.DataErrReader(plainReader{bytes.NewReader(d)})
							}
							err := st.Put(ctx, k, src, excl)
							_, exists := m[k]
							if excl && exists {
								if err == nil {
									return "exclusive Put over an existing key succeeded"
								}
								return ""
							}
							if err != nil {
								return "Put failed: " + err.Error()
							}
							m[k] = d
							return ""
						}})
					}
				}
				ops = append(ops, op{fmt.Sprintf("Delete(%s)", k), func(st storage.Store, m map[string][]byte) string {
					err := st.Delete(ctx, k)
					if _, exists := m[k]; exists && err != nil {
						return "Delete failed: " + err.Error()
					}
					delete(m, k)
					return ""
				}})
			}
			// deleting a name that is not a key but a path-component prefix of keys (a "directory"): nothing may change
			for _, dname := range []string{"x", "x/b", "x.y", "xy", "nothing-here"} {
				dname := dname
				ops = append(ops, op{fmt.Sprintf("Delete(%s)", dname), func(st storage.Store, m map[string][]byte) string {
					_ = st.Delete(ctx, dname) // an error or a no-op are both fine for a key that does not exist
					return ""
				}})
			}
			// an abandoned pagination followed by a mutation must not poison later listings
			ops = append(ops, op{"ListFirstPageOnly(x,1);Put(x/zz)", func(st storage.Store, m map[string][]byte) string {
				_, _, _ = st.KeysPrefix(ctx, "", "x", "", 1)
				if err := st.Put(ctx, "x/zz", bytes.NewReader([]byte("late")), storage.NoOverWrite); err != nil {
					return "Put failed: " + err.Error()
				}
				m["x/zz"] = []byte("late")
				got, err := c16list(st, "x", "", 100)
				want := lib.ListRef(modelKeys(m), "x", "")
				sort.Strings(got)
				if err != nil || strings.Join(got, ",") != strings.Join(want, ",") {
					return fmt.Sprintf("listing after an abandoned pagination: got %v (%v) want %v", got, err, want)
				}
				return ""
			}})
			for _, o := range ops {
				fs, clean := j.be.mk()
				st, model, err := c16build(fs, j.state)
				if err == nil {
					c20try(rep, "C16|op|backend="+j.be.name, o.name, func() {
						if msg := o.do(st, model); msg != "" {
							name := o.name
							if i := strings.Index(name, "("); i > 0 {
								name = name[:i]
							}
							rep.Violate("C16|op-"+name+"|backend="+j.be.name, fmt.Sprintf("state {%s} %s: %s", desc, o.name, msg), rp)
						}
						// resulting state readable as the model says
						for _, k := range append(append([]string(nil), c16keys...), "x/zz") {
							r, err := st.Get(ctx, k)
							var got []byte
							if err == nil {
								got, _ = io.ReadAll(r)
								r.Close()
							}
							want, exists := model[k]
							if exists != (err == nil) || (exists && !bytes.Equal(got, want)) {
								rep.Violate("C16|state-after-op|backend="+j.be.name, fmt.Sprintf("state {%s} after %s: key %s reads %q,%v; model %q exists=%v", desc, o.name, k, got, err, want, exists), rp)
							}
						}
					})
				}
				clean()
				tmu.Lock()
				transitions++
				tmu.Unlock()
			}
		}(j)
	}
	wg.Wait()
	rep.AddStates(int64(len(jobs)), transitions, transitions)
	rep.Sample(map[string]interface{}{"state": c16stateDesc(jobs[len(jobs)/3].state), "backend": jobs[len(jobs)/3].be.name})

	c16concurrent(t, rep)
	c16readerWriter(t, rep)
}

// ---- (b) concurrent exclusive Puts -----------------------------------------------------------

type gatedFs struct {
	afero.Fs
	x      *lib.Exec
	client int
}

func (g *gatedFs) OpenFile(name string, flag int, perm os.FileMode) (afero.File, error) {
	if d := g.x.Gate(g.client, "fs", "OpenFile", name, flag&os.O_CREATE != 0); d != lib.Proceed {
		return nil, lib.ErrDead
	}
	f, err := g.Fs.OpenFile(name, flag, perm)
	if err != nil {
		return nil, err
	}
	return &gatedFile{File: f, g: g, name: name}, nil
}

func (g *gatedFs) Open(name string) (afero.File, error) {
	if d := g.x.Gate(g.client, "fs", "Open", name, false); d != lib.Proceed {
		return nil, lib.ErrDead
	}
	return g.Fs.Open(name)
}

func (g *gatedFs) MkdirAll(p string, perm os.FileMode) error {
	if d := g.x.Gate(g.client, "fs", "MkdirAll", p, true); d != lib.Proceed {
		return lib.ErrDead
	}
	return g.Fs.MkdirAll(p, perm)
}

type gatedFile struct {
	afero.File
	g    *gatedFs
	name string
}

func (f *gatedFile) Write(p []byte) (int, error) {
	if d := f.g.x.Gate(f.g.client, "file", "Write", f.name, true); d != lib.Proceed {
		return 0, lib.ErrDead
	}
	return f.File.Write(p)
}

func (f *gatedFile) Close() error {
	if d := f.g.x.Gate(f.g.client, "file", "Close", f.name, true); d != lib.Proceed {
		return lib.ErrDead
	}
	return f.File.Close()
}

// ---- (c) a reader concurrent with one writer: reads are atomic (an object store never shows a torn object) -------

// c16sharedFs gates the afero calls of ONE store object used by several clients (the lock option lives in the store
// object); the calling client is found through its goroutine (localfs calls afero in the caller's goroutine when the
// source is an io.WriterTo). Reads of files opened for reading are gated too: a reader may open before and read after a
// write.
type c16sharedFs struct {
	afero.Fs
	x  *lib.Exec
	mu sync.Mutex
	by map[uint64]int
}

func goid() uint64 {
	var buf [64]byte
	n := runtime.Stack(buf[:], false)
	f := strings.Fields(string(buf[:n])) // "goroutine 123 [running]:"
	id, _ := strconv.ParseUint(f[1], 10, 64)
	return id
}

func (g *c16sharedFs) register(client int) {
	g.mu.Lock()
	if g.by == nil {
		g.by = map[uint64]int{}
	}
	g.by[goid()] = client
	g.mu.Unlock()
}

func (g *c16sharedFs) client() int {
	g.mu.Lock()
	defer g.mu.Unlock()
	c, ok := g.by[goid()]
	if !ok {
		panic("afero call from an unregistered goroutine")
	}
	return c
}

type c16sharedFile struct {
	afero.File
	g    *c16sharedFs
	name string
}

func (g *c16sharedFs) OpenFile(name string, flag int, perm os.FileMode) (afero.File, error) {
	if d := g.x.Gate(g.client(), "fs", "OpenFile", name, flag&os.O_CREATE != 0); d != lib.Proceed {
		return nil, lib.ErrDead
	}
	f, err := g.Fs.OpenFile(name, flag, perm)
	if err != nil {
		return nil, err
	}
	return &c16sharedFile{File: f, g: g, name: name}, nil
}

func (g *c16sharedFs) Open(name string) (afero.File, error) {
	if d := g.x.Gate(g.client(), "fs", "Open", name, false); d != lib.Proceed {
		return nil, lib.ErrDead
	}
	f, err := g.Fs.Open(name)
	if err != nil {
		return nil, err
	}
	return &c16sharedFile{File: f, g: g, name: name}, nil
}

func (g *c16sharedFs) MkdirAll(p string, perm os.FileMode) error {
	if d := g.x.Gate(g.client(), "fs", "MkdirAll", p, true); d != lib.Proceed {
		return lib.ErrDead
	}
	return g.Fs.MkdirAll(p, perm)
}

func (f *c16sharedFile) Write(p []byte) (int, error) {
	if d := f.g.x.Gate(f.g.client(), "file", "Write", f.name, true); d != lib.Proceed {
		return 0, lib.ErrDead
	}
	return f.File.Write(p)
}

func (f *c16sharedFile) Read(p []byte) (int, error) {
	if d := f.g.x.Gate(f.g.client(), "file", "Read", f.name, false); d != lib.Proceed {
		return 0, lib.ErrDead
	}
	return f.File.Read(p)
}

func (f *c16sharedFile) Close() error {
	if d := f.g.x.Gate(f.g.client(), "file", "Close", f.name, true); d != lib.Proceed {
		return lib.ErrDead
	}
	return f.File.Close()
}

func c16readerWriter(t *testing.T, rep *lib.Report) {
	const oldV, shortV, longV = "old-value-0123456789", "NEW", "a-new-value-that-is-longer-than-the-old-one"
	for _, cfg := range []struct {
		mode string // overwrite-shorter | overwrite-longer | create-exclusive
		lock bool
		osfs bool
	}{{"overwrite-shorter", false, false}, {"overwrite-longer", false, false}, {"create-exclusive", false, false}, {"overwrite-shorter", false, true}, {"create-exclusive", false, true}} {
		// (the lock option is explored sequentially below: a goroutine waiting for the store's RWMutex is not at a
		// scheduling point of this explorer)
		cfg := cfg
		sc := &lib.Scenario{Name: fmt.Sprintf("reader||writer-%s-lock=%v-osfs=%v", cfg.mode, cfg.lock, cfg.osfs), FreePreempt: true}
		newV := shortV
		if cfg.mode == "overwrite-longer" {
			newV = longV
		}
		sc.Setup = func(x *lib.Exec) {
			var fs afero.Fs
			if cfg.osfs {
				dir, clean := c16scratch()
				x.Data["clean"] = clean
				fs = afero.NewBasePathFs(afero.NewOsFs(), filepath.Clean(dir))
			} else {
				fs = afero.NewMemMapFs()
			}
			x.Data["fs"] = fs
			if cfg.mode != "create-exclusive" {
				_ = fs.MkdirAll("dir", 0o700)
				_ = afero.WriteFile(fs, "dir/key", []byte(oldV), 0o600)
			}
			shared := &c16sharedFs{Fs: fs, x: x}
			x.Data["shared"] = shared
			x.Data["store"] = localfs.New(shared, localfs.WithRetry(false), localfs.WithLogger(nopLogger), localfs.WithLock(cfg.lock))
		}
		store := func(x *lib.Exec, id int) storage.Store {
			x.Data["shared"].(*c16sharedFs).register(id)
			return x.Data["store"].(storage.Store)
		}
		sc.Phases = [][]lib.ClientFn{{
			func(x *lib.Exec, id int) error {
				st := store(x, id)
				return st.Put(context.Background(), "dir/key", bytes.NewReader([]byte(newV)), cfg.mode == "create-exclusive")
			},
			func(x *lib.Exec, id int) error {
				st := store(x, id)
				r, err := st.Get(context.Background(), "dir/key")
				if err != nil {
					x.Data["read"] = "error:" + errTag(err)
					if errors.Is(err, storagestatus.ErrNotExists) {
						x.Data["read"] = "not-exists"
					}
					return nil
				}
				b, rerr := io.ReadAll(r)
				_ = r.Close()
				if rerr != nil {
					x.Data["read"] = "read-error:" + rerr.Error()
					return nil
				}
				x.Data["read"] = "bytes:" + string(b)
				return nil
			},
		}}
		sc.Final = func(x *lib.Exec) {
			if clean, ok := x.Data["clean"].(func()); ok {
				defer clean()
			}
			if x.Hung {
				x.Violate("C16|reader-writer|hang", "never returned")
				return
			}
			if x.ClientErr[0] != nil {
				x.Violate("C16|reader-writer|put-failed|"+cfg.mode, x.ClientErr[0].Error())
			}
			got, _ := x.Data["read"].(string)
			okv := map[string]bool{"bytes:" + newV: true}
			if cfg.mode == "create-exclusive" {
				okv["not-exists"] = true
			} else {
				okv["bytes:"+oldV] = true
			}
			x.SetOutcome(got)
			if !okv[got] {
				x.Violate(fmt.Sprintf("C16|torn-read|%s|lock=%v", cfg.mode, cfg.lock), fmt.Sprintf("a Get concurrent with Put(%q) over %q returned %s: neither the previous nor the new object", newV, map[bool]string{true: "(absent)", false: oldV}[cfg.mode == "create-exclusive"], got))
			}
		}
		e := &lib.Explorer{Sc: sc, PreemptBound: -1, MaxExecs: 200000, Budget: 5 * time.Minute}
		e.Explore(t, rep)
		rep.Set("executions:"+sc.Name, e.Execs)
	}
	// the store's lock option: Get takes the read lock only while it opens the file, so a reader obtained before an
	// overwrite reads while the overwrite is in progress. Phase 1: Get; phase 2: Put || consuming the reader (no client
	// ever waits for the RWMutex, which is not a scheduling point of this explorer).
	{
		sc := &lib.Scenario{Name: "reader-opened-first||writer-overwrite-shorter-lock=true", FreePreempt: true}
		sc.Setup = func(x *lib.Exec) {
			fs := afero.NewMemMapFs()
			_ = fs.MkdirAll("dir", 0o700)
			_ = afero.WriteFile(fs, "dir/key", []byte(oldV), 0o600)
			shared := &c16sharedFs{Fs: fs, x: x}
			x.Data["shared"] = shared
			x.Data["store"] = localfs.New(shared, localfs.WithRetry(false), localfs.WithLogger(nopLogger), localfs.WithLock(true))
		}
		sc.Phases = [][]lib.ClientFn{
			{func(x *lib.Exec, id int) error {
				x.Data["shared"].(*c16sharedFs).register(id)
				r, err := x.Data["store"].(storage.Store).Get(context.Background(), "dir/key")
				x.Data["reader"] = r
				return err
			}},
			{func(x *lib.Exec, id int) error {
				x.Data["shared"].(*c16sharedFs).register(id)
				return x.Data["store"].(storage.Store).Put(context.Background(), "dir/key", bytes.NewReader([]byte(shortV)), storage.OverWrite)
			}, func(x *lib.Exec, id int) error {
				x.Data["shared"].(*c16sharedFs).register(id)
				r := x.Data["reader"].(io.ReadCloser)
				b, err := io.ReadAll(r)
				_ = r.Close()
				x.Data["read"] = fmt.Sprintf("bytes:%s err=%v", b, err)
				return nil
			}},
		}
		sc.Final = func(x *lib.Exec) {
			if x.Hung {
				x.Violate("C16|reader-writer|hang", "never returned")
				return
			}
			got, _ := x.Data["read"].(string)
			x.SetOutcome(got)
			if x.ClientErr[0] != nil || x.ClientErr[1] != nil || (got != "bytes:"+oldV+" err=<nil>" && got != "bytes:"+shortV+" err=<nil>") {
				x.Violate("C16|torn-read|overwrite-shorter|lock=true", fmt.Sprintf("store with the lock option: a reader obtained before Put(%q) over %q and consumed while the Put runs returned %s (errors %v %v): neither the previous nor the new object", shortV, oldV, got, x.ClientErr[0], x.ClientErr[1]))
			}
		}
		e := &lib.Explorer{Sc: sc, PreemptBound: -1, MaxExecs: 200000, Budget: 5 * time.Minute}
		e.Explore(t, rep)
		rep.Set("executions:"+sc.Name, e.Execs)
	}
	// sequential: a reader obtained BEFORE an overwrite and consumed AFTER it (no concurrency needed; with the lock
	// option the read lock is released when Get returns)
	for _, be := range c16backends {
		for _, lock := range []bool{false, true} {
			for _, newV := range []string{shortV, longV} {
				fs, clean := be.mk()
				_ = fs.MkdirAll("dir", 0o700)
				_ = afero.WriteFile(fs, "dir/key", []byte(oldV), 0o600)
				st := localfs.New(fs, localfs.WithRetry(false), localfs.WithLogger(nopLogger), localfs.WithLock(lock))
				r, err := st.Get(context.Background(), "dir/key")
				if err == nil {
					err = st.Put(context.Background(), "dir/key", bytes.NewReader([]byte(newV)), storage.OverWrite)
				}
				var got []byte
				if err == nil {
					got, err = io.ReadAll(r)
					_ = r.Close()
				}
				rep.Eval(1)
				rep.AddStates(1, 3, 1)
				if err != nil || (string(got) != oldV && string(got) != newV) {
					rep.Violate(fmt.Sprintf("C16|torn-read|reader-opened-before-overwrite|lock=%v", lock), fmt.Sprintf("backend %s: Get, then Put(%q) over %q, then reading the Get's reader returned %q, %v: neither the previous nor the new object", be.name, newV, oldV, got, err), map[string]interface{}{"backend": be.name, "lock": lock, "new": newV})
				}
				clean()
			}
		}
	}
}

type plainReader struct{ r io.Reader }

func (p plainReader) Read(b []byte) (int, error) { return p.r.Read(b) }

func c16concurrent(t *testing.T, rep *lib.Report) {
	for _, cfg := range []struct {
		writers  int
		writerTo bool
		retry    bool
		osfs     bool
	}{{2, true, false, false}, {3, true, false, false}, {2, false, false, false}, {3, false, false, true}} {
		// (no retry=true configuration: the retry loop of Put sleeps for jittered, randomly drawn intervals, so the number
		// of attempts within its 30 s budget is not a function of the schedule)
		if cfg.writers == 3 && !cfg.writerTo && !lib.Thorough() {
			continue
		}
		cfg := cfg
		sc := &lib.Scenario{Name: fmt.Sprintf("excl-put-%dwriters-writerTo=%v-retry=%v-osfs=%v", cfg.writers, cfg.writerTo, cfg.retry, cfg.osfs), FreePreempt: true}
		sc.Setup = func(x *lib.Exec) {
			if cfg.osfs {
				dir, clean := c16scratch()
				x.Data["clean"] = clean
				x.Data["fs"] = afero.NewBasePathFs(afero.NewOsFs(), filepath.Clean(dir))
			} else {
				x.Data["fs"] = afero.NewMemMapFs()
			}
		}
		var phase []lib.ClientFn
		for i := 0; i < cfg.writers; i++ {
			i := i
			phase = append(phase, func(x *lib.Exec, id int) error {
				st := localfs.New(&gatedFs{Fs: x.Data["fs"].(afero.Fs), x: x, client: id}, localfs.WithRetry(cfg.retry), localfs.WithLogger(nopLogger))
				var src io.Reader = bytes.NewReader([]byte(fmt.Sprintf("writer-%d-bytes", i)))
				if !cfg.writerTo {
					src = plainReader{src}
				}
				return st.Put(context.Background(), "dir/key", src, storage.NoOverWrite)
			})
		}
		sc.Phases = [][]lib.ClientFn{phase}
		sc.Final = func(x *lib.Exec) {
			if clean, ok := x.Data["clean"].(func()); ok {
				defer clean()
			}
			if x.Hung {
				x.Violate("C16|excl|hang", "writers never returned")
				return
			}
			winners := []int{}
			for i := 0; i < cfg.writers; i++ {
				if x.ClientErr[i] == nil {
					winners = append(winners, i)
				}
			}
			got, err := afero.ReadFile(x.Data["fs"].(afero.Fs), "dir/key")
			if len(winners) != 1 {
				x.Violate(fmt.Sprintf("C16|excl|winners=%d", len(winners)), fmt.Sprintf("%d exclusive writers succeeded (%v); file holds %q", len(winners), winners, got))
			} else if err != nil || string(got) != fmt.Sprintf("writer-%d-bytes", winners[0]) {
				x.Violate("C16|excl|final-bytes-not-winners", fmt.Sprintf("winner %d but file holds %q (%v)", winners[0], got, err))
			}
			x.SetOutcome(fmt.Sprintf("winners=%v", winners))
		}
		e := &lib.Explorer{Sc: sc, PreemptBound: -1, MaxExecs: 200000, Budget: 5 * time.Minute}
		e.Explore(t, rep)
		rep.Set("executions:"+sc.Name, e.Execs)
	}
}
