package props

import (
	"bytes"
	"fmt"
	"sort"
	"strings"
	"testing"
	"time"

	context2 "github.com/oneconcern/datamon/pkg/context"
	"github.com/oneconcern/datamon/pkg/core"
	"verif/harness/lib"
)

// C09 (b) — delete / rename / delete-files affect exactly their own repository (E2: enumerated histories).

type c09hist struct {
	nA, nAB, nB int  // bundles per repo
	labels      bool // labels on some bundles
	big         bool // repo a's bundles have 1001 files each (two index files through the public API)
}

type c09world struct {
	w      *World
	ids    map[string][]string
	files  map[string]map[string][]byte // bundle id -> files
	labels map[string]map[string]string // repo -> label -> bundle id
}

var c09contents = [][]byte{[]byte("shared-content-1"), pattern("rep", 150, 64)}

func c09build(h c09hist) *c09world {
	cw := &c09world{w: NewWorld(), ids: map[string][]string{}, files: map[string]map[string][]byte{}, labels: map[string]map[string]string{}}
	cw.w.Blob.NoJournal = true
	st := cw.w.Stores()
	for repo, n := range map[string]int{"a": h.nA, "ab": h.nAB, "b": h.nB} {
		_ = repo
		_ = n
	}
	for _, rc := range []struct {
		repo string
		n    int
	}{{"a", h.nA}, {"ab", h.nAB}, {"b", h.nB}} {
		if err := mkRepo(st, rc.repo); err != nil {
			panic(err)
		}
		cw.labels[rc.repo] = map[string]string{}
		for i := 0; i < rc.n; i++ {
			files := map[string][]byte{"p": c09contents[i%2], "q": c09contents[(i+1)%2]}
			if i == 1 {
				files = map[string][]byte{"p": c09contents[1], "d/r": c09contents[0]}
			}
			if h.big && rc.repo == "a" { // both bundles of a: in the second one p is the 1001st entry, i.e. in its second index file
				for k := 0; k < 999; k++ {
					files[fmt.Sprintf("bulk/f%04d", k)] = []byte(fmt.Sprintf("%d", k%3))
				}
			}
			b, err := uploadFiles(st, rc.repo, files, 64, 0)
			if err != nil {
				panic(err)
			}
			cw.ids[rc.repo] = append(cw.ids[rc.repo], b.BundleID)
			cw.files[b.BundleID] = files
		}
		if h.labels && rc.n > 0 {
			for _, l := range []string{"l1", "v1.0.0"} {
				id := cw.ids[rc.repo][0]
				if l == "v1.0.0" {
					id = cw.ids[rc.repo][rc.n-1]
				}
				if err := setLabel(st, rc.repo, l, id); err != nil {
					panic(err)
				}
				cw.labels[rc.repo][l] = id
			}
		}
	}
	return cw
}

// c09observe returns the observable state of one repository: bundle IDs, per-bundle downloaded files, labels.
func c09observe(w *World, repo string) (string, error) {
	st := w.Stores()
	bs, err := core.ListBundles(repo, st)
	if err != nil {
		return "", err
	}
	var parts []string
	for _, b := range bs {
		dest := lib.NewMemStore("dest")
		dest.NoCRC, dest.NoJournal = true, true
		if _, err := downloadBundle(st, repo, b.ID, dest, 0); err != nil {
			return "", fmt.Errorf("bundle %s does not download: %w", b.ID, err)
		}
		snap := dest.Snapshot()
		var fs []string
		for n, d := range snap {
			if !strings.HasPrefix(n, ".datamon/") {
				fs = append(fs, fmt.Sprintf("%s:%d:%x", n, len(d), lib.Sum8(d)))
			}
		}
		sort.Strings(fs)
		parts = append(parts, b.ID+"{"+strings.Join(fs, ",")+"}")
	}
	ls, err := core.ListLabels(repo, st)
	if err != nil {
		return "", err
	}
	var lp []string
	for _, l := range ls {
		lp = append(lp, l.Name+"="+l.BundleID)
	}
	sort.Strings(lp)
	return strings.Join(parts, ";") + "|labels:" + strings.Join(lp, ","), nil
}

func c09keysOutside(before, after map[string][]byte, allowedPrefixes []string) []string {
	var bad []string
	check := func(k string) {
		for _, p := range allowedPrefixes {
			if strings.HasPrefix(k, p) {
				return
			}
		}
		bad = append(bad, k)
	}
	for k, v := range before {
		if v2, ok := after[k]; !ok || !bytes.Equal(v, v2) {
			check(k)
		}
	}
	for k := range after {
		if _, ok := before[k]; !ok {
			check(k)
		}
	}
	sort.Strings(bad)
	return bad
}

func c09bRun(rep *lib.Report) {
	var hists []c09hist
	for nA := 0; nA <= 2; nA++ {
		for nAB := 0; nAB <= 1; nAB++ {
			for nB := 0; nB <= 1; nB++ {
				for _, lb := range []bool{false, true} {
					hists = append(hists, c09hist{nA, nAB, nB, lb, false})
				}
			}
		}
	}
	hists = append(hists, c09hist{2, 1, 1, true, true})
	type opT struct {
		name string
		run  func(cw *c09world) error
	}
	subsets := [][]string{{}, {"p"}, {"q"}, {"absent"}, {"p", "q"}, {"p", "absent"}, {"p", "q", "absent"}}
	for _, h := range hists {
		ops := []opT{
			{"delete-repo(a)", func(cw *c09world) error { return core.DeleteRepo("a", cw.w.Stores()) }},
			{"rename(a->c)", func(cw *c09world) error { return core.RenameRepo("a", "c", cw.w.Stores()) }},
			{"rename(a->ab)", func(cw *c09world) error { return core.RenameRepo("a", "ab", cw.w.Stores()) }},
		}
		for _, s := range subsets {
			s := s
			if h.big && len(s) != 1 {
				continue
			}
			ops = append(ops, opT{fmt.Sprintf("delete-files(a,%v)", s), func(cw *c09world) error { return core.DeleteEntriesFromRepo("a", cw.w.Stores(), s) }})
		}
		if h.big {
			ops = append(ops, opT{"delete-files(a,[bulk/f0000])", func(cw *c09world) error {
				return core.DeleteEntriesFromRepo("a", cw.w.Stores(), []string{"bulk/f0000"})
			}})
		}
		for _, op := range ops {
			cw := c09build(h)
			rp := map[string]interface{}{"history": fmt.Sprintf("%+v", h), "op": op.name}
			desc := fmt.Sprintf("history %+v, %s", h, op.name)
			kind := strings.SplitN(op.name, "(", 2)[0]
			shape := kind
			if h.big {
				shape += "|bundle-with-1001-files"
			}
			guard(rep, "C09|"+shape, func() string { return desc }, rp, func() {
				before := map[string]string{}
				for _, r := range []string{"a", "ab", "b"} {
					o, err := c09observe(cw.w, r)
					if err != nil {
						panic(fmt.Sprintf("setup observation of %s: %v", r, err))
					}
					before[r] = o
				}
				metaBefore, vmetaBefore := cw.w.Meta.Snapshot(), cw.w.VMeta.Snapshot()
				err := op.run(cw)
				rep.Eval(1)
				allowed := []string{"repos/a/", "bundles/a/", "labels/a/"}
				if op.name == "rename(a->c)" {
					allowed = append(allowed, "repos/c/", "bundles/c/", "labels/c/")
				}
				if bad := append(c09keysOutside(metaBefore, cw.w.Meta.Snapshot(), allowed), c09keysOutside(vmetaBefore, cw.w.VMeta.Snapshot(), allowed)...); len(bad) > 0 {
					rep.Violate("C09|"+kind+"|touches-other-repositories", fmt.Sprintf("%s: keys changed outside repository a: %v", desc, bad), rp)
				}
				for _, r := range []string{"ab", "b"} {
					o, oerr := c09observe(cw.w, r)
					if oerr != nil || o != before[r] {
						rep.Violate("C09|"+kind+"|other-repository-changed", fmt.Sprintf("%s: repository %s observed %q (%v), before %q", desc, r, o, oerr, before[r]), rp)
					}
				}
				st := cw.w.Stores()
				switch {
				case op.name == "rename(a->ab)":
					if err == nil {
						rep.Violate("C09|rename|onto-existing-repo-accepted", desc, rp)
					}
					if o, _ := c09observe(cw.w, "a"); o != before["a"] {
						rep.Violate("C09|rename|refused-rename-changed-source", desc, rp)
					}
				case err != nil:
					rep.Violate("C09|"+shape+"|error", desc+": "+err.Error(), rp)
				case kind == "delete-repo":
					if core.RepoExists("a", st) == nil {
						rep.Violate("C09|delete-repo|repo-still-exists", desc, rp)
					}
					for _, s := range []*lib.MemStore{cw.w.Meta, cw.w.VMeta} {
						for _, k := range s.RawKeys() {
							if strings.HasPrefix(k, "repos/a/") || strings.HasPrefix(k, "bundles/a/") || strings.HasPrefix(k, "labels/a/") {
								rep.Violate("C09|delete-repo|leftover-keys", fmt.Sprintf("%s: %s still exists", desc, k), rp)
							}
						}
					}
				case kind == "rename":
					if core.RepoExists("a", st) == nil {
						rep.Violate("C09|rename|old-repo-still-exists", desc, rp)
					}
					o, oerr := c09observe(cw.w, "c")
					if oerr != nil || o != before["a"] {
						rep.Violate("C09|rename|bundles-or-labels-not-preserved", fmt.Sprintf("%s: new repo observed %q (%v), old repo was %q", desc, o, oerr, before["a"]), rp)
					}
				case kind == "delete-files":
					del := map[string]bool{}
					inner := op.name[strings.Index(op.name, "[")+1 : strings.Index(op.name, "]")]
					for _, f := range strings.Fields(inner) {
						del[f] = true
					}
					for _, id := range cw.ids["a"] {
						want := map[string][]byte{}
						for n, d := range cw.files[id] {
							if !del[n] {
								want[n] = d
							}
						}
						ents, eerr := bundleEntries(st, "a", id)
						if eerr != nil {
							rep.Violate("C09|"+shape+"|bundle-unreadable-after-delete-files", fmt.Sprintf("%s: bundle %s: %v", desc, id, eerr), rp)
							continue
						}
						var got, wantN []string
						for n := range ents {
							got = append(got, n)
						}
						for n := range want {
							wantN = append(wantN, n)
						}
						sort.Strings(got)
						sort.Strings(wantN)
						if strings.Join(got, ",") != strings.Join(wantN, ",") {
							rep.Violate("C09|"+shape+"|wrong-entries-after-delete-files", fmt.Sprintf("%s: bundle %s lists %d entries, want %d", desc, id, len(got), len(wantN)), rp)
						}
						dest := lib.NewMemStore("dest")
						dest.NoCRC, dest.NoJournal = true, true
						if _, derr := downloadBundle(st, "a", id, dest, 0); derr != nil {
							rep.Violate("C09|"+shape+"|bundle-not-downloadable-after-delete-files", fmt.Sprintf("%s: bundle %s: %v", desc, id, derr), rp)
							continue
						}
						c04compare(rep, "C09|"+shape+"|download-after-delete-files", desc, dest, want, rp)
					}
					ls, _ := core.ListLabels("a", st)
					if len(ls) != len(cw.labels["a"]) {
						rep.Violate("C09|delete-files|labels-changed", desc, rp)
					}
				}
			})
			rep.Outcome(desc)
		}
	}
	rep.Set("histories_b", len(hists))
}

// ---- (c) repository operations under a single transient store failure (E1, fault enumeration) -----------------
// A failed delete-repo / delete-files is run again without fault: the retry works (or the first attempt had completed) and
// the postcondition of a successful command then holds (nothing of the repository is left behind).

func c09cFaults(t *testing.T, rep *lib.Report) {
	gates := map[string]func(string, string) bool{"meta": allCalls, "vmeta": allCalls}
	type opT struct {
		name string
		run  func(st context2.Stores) error
	}
	for _, o := range []opT{
		{"rename(a->c)", func(st context2.Stores) error { return core.RenameRepo("a", "c", st) }},
		{"delete-repo(a)", func(st context2.Stores) error { return core.DeleteRepo("a", st) }},
		{"delete-files(a,[p])", func(st context2.Stores) error { return core.DeleteEntriesFromRepo("a", st, []string{"p"}) }},
	} {
		o := o
		sc := &lib.Scenario{Name: "repo-op-under-fault:" + o.name}
		sc.Setup = func(x *lib.Exec) {
			cw := c09build(c09hist{nA: 2, nAB: 1, nB: 0, labels: true})
			x.Data["cw"] = cw
			before := map[string]string{}
			for _, r := range []string{"a", "ab"} {
				ob, err := c09observe(cw.w, r)
				if err != nil {
					panic(err)
				}
				before[r] = ob
			}
			x.Data["before"] = before
		}
		sc.Phases = [][]lib.ClientFn{{func(x *lib.Exec, id int) error {
			cw := x.Data["cw"].(*c09world)
			return noPanic(x, func() error { return o.run(cw.w.Gated(x, id, gates)) })
		}}}
		sc.Faults = transientFaults(0)
		sc.Final = func(x *lib.Exec) {
			cw := x.Data["cw"].(*c09world)
			before := x.Data["before"].(map[string]string)
			site := faultClass(x)
			kind := strings.SplitN(o.name, "(", 2)[0]
			if x.Hung {
				x.Violate("C09|under-fault|hang|"+kind, o.name+" never returned under "+site)
				return
			}
			err := x.ClientErr[0]
			x.SetOutcome(site + ";" + errTag(err))
			if p, ok := x.Data["panic"].(string); ok {
				x.Violate("C09|under-fault|panic|"+kind, fmt.Sprintf("%s panicked under %s: %s", o.name, site, p))
			}
			if site == "none" && err != nil {
				x.Violate("C09|under-fault|error-without-fault|"+kind, err.Error())
				return
			}
			if ob, oerr := c09observe(cw.w, "ab"); oerr != nil || ob != before["ab"] {
				x.Violate("C09|under-fault|other-repository-changed|"+kind, fmt.Sprintf("%s under %s: repository ab observed %q (%v), before %q", o.name, site, ob, oerr, before["ab"]))
			}
			st := cw.w.Stores()
			if err != nil && kind != "rename" {
				// the user runs the command again (a rename cannot be re-run: its target exists by now)
				if rerr := noPanic(x, func() error { return o.run(st) }); rerr != nil {
					// fine only if the first attempt had in fact completed (its last write landed, then the error came back)
					if !(kind == "delete-repo" && core.RepoExists("a", st) != nil) {
						x.Violate("C09|under-fault|retry-fails|"+kind, fmt.Sprintf("%s failed under %s (%v); run again without any fault it fails too: %v", o.name, site, err, rerr))
						return
					}
				}
				err = nil // from here on the postcondition of a successful command applies
				site += ", then a fault-free retry"
			}
			aExists := core.RepoExists("a", st) == nil
			switch kind {
			case "rename":
				oa, ea := c09observe(cw.w, "a")
				oc, ec := c09observe(cw.w, "c")
				if err == nil {
					if aExists {
						x.Violate("C09|under-fault|rename-success-but-old-repo-exists", fmt.Sprintf("%s returned nil under %s", o.name, site))
					}
					if ec != nil || oc != before["a"] {
						x.Violate("C09|under-fault|rename-success-but-new-repo-incomplete", fmt.Sprintf("%s returned nil under %s; new repo observed %q (%v), old repo was %q", o.name, site, oc, ec, before["a"]))
					}
				} else if !((ea == nil && oa == before["a"]) || (ec == nil && oc == before["a"])) {
					x.Violate("C09|under-fault|rename-failed-and-no-complete-copy-left", fmt.Sprintf("%s failed under %s (%v): old repo observed %q (%v), new repo %q (%v), before %q", o.name, site, err, oa, ea, oc, ec, before["a"]))
				}
			case "delete-repo":
				if err == nil {
					for _, k := range append(cw.w.Meta.RawKeys(), cw.w.VMeta.RawKeys()...) {
						if strings.HasPrefix(k, "repos/a/") || strings.HasPrefix(k, "bundles/a/") || strings.HasPrefix(k, "labels/a/") {
							x.Violate("C09|under-fault|delete-success-but-keys-left", fmt.Sprintf("%s returned nil under %s; %s still exists", o.name, site, k))
							break
						}
					}
				}
			case "delete-files":
				if err == nil {
					for _, id := range cw.ids["a"] {
						got, eerr := bundleEntries(st, "a", id)
						if eerr != nil {
							x.Violate("C09|under-fault|delete-files-success-but-bundle-unreadable", fmt.Sprintf("%s returned nil under %s; bundle %s: %v", o.name, site, id, eerr))
							continue
						}
						if _, still := got["p"]; still {
							x.Violate("C09|under-fault|delete-files-success-but-path-still-listed", fmt.Sprintf("%s returned nil under %s; bundle %s still lists p", o.name, site, id))
						}
						if len(got) != len(cw.files[id])-1 {
							x.Violate("C09|under-fault|delete-files-success-but-wrong-entries", fmt.Sprintf("%s returned nil under %s; bundle %s lists %d entries, want %d", o.name, site, id, len(got), len(cw.files[id])-1))
						}
					}
				}
			}
		}
		e := &lib.Explorer{Sc: sc, PreemptBound: 0, FaultBound: 1, MaxExecs: 50000, Budget: 8 * time.Minute}
		e.Explore(t, rep)
		rep.Set("executions:"+sc.Name, e.Execs)
	}
}
