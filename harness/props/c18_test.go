package props

import (
	"bytes"
	"context"
	"encoding/json"
	"fmt"
	"os"
	"os/exec"
	"runtime"
	"sort"
	"strings"
	"sync"
	"sync/atomic"
	"testing"
	"time"

	jfuse "github.com/jacobsa/fuse"
	"github.com/jacobsa/fuse/fuseops"
	"github.com/jacobsa/fuse/fuseutil"
	"github.com/oneconcern/datamon/pkg/core"
	dfuse "github.com/oneconcern/datamon/pkg/fuse"
	"github.com/oneconcern/datamon/pkg/storage/localfs"
	"github.com/spf13/afero"
	"verif/harness/lib"
)

// C18 — a mutable mount behaves like a file system and commits what it shows.
// E2: BFS over operation histories on the real fsMutable (fresh instance + replay per state), de-duplicated on
// (model tree + lookup counts, implementation dump incl. the inode allocator); step-wise agreement with a POSIX tree
// model; observer battery and a commit in every visited state. The BFS runs in a worker subprocess (a double Unlock or
// an internal panic is fatal); the parent turns a dead worker into a violation and restarts without that op kind.

type c18op struct {
	Kind  string `json:"k"`
	P     uint64 `json:"p,omitempty"` // parent inode / inode
	Name  string `json:"n,omitempty"`
	P2    uint64 `json:"p2,omitempty"`
	Name2 string `json:"n2,omitempty"`
	Off   int    `json:"off,omitempty"`
	Data  string `json:"d,omitempty"`
	Size  uint64 `json:"sz,omitempty"`
	N     int    `json:"cnt,omitempty"`
	Class string `json:"c,omitempty"` // classification used for signatures and for skipping after a fatal error
}

func (o c18op) String() string {
	switch o.Kind {
	case "rename":
		return fmt.Sprintf("rename(%d/%s -> %d/%s)", o.P, o.Name, o.P2, o.Name2)
	case "write":
		return fmt.Sprintf("write(%d,off=%d,%q)", o.P, o.Off, o.Data)
	case "truncate":
		return fmt.Sprintf("truncate(%d,%d)", o.P, o.Size)
	case "forget":
		return fmt.Sprintf("forget(%d,%d)", o.P, o.N)
	}
	return fmt.Sprintf("%s(%d/%s)", o.Kind, o.P, o.Name)
}

type c18inode struct {
	dir     bool
	data    []byte
	lookups int
	linked  bool
	parent  uint64
	name    string
}

type c18model struct {
	nodes map[uint64]*c18inode
	dirs  map[uint64]map[string]uint64 // directory inode -> name -> child
	freed int                          // inodes released so far (unlinked and forgotten): their numbers may be recycled
}

func newC18model() *c18model {
	m := &c18model{nodes: map[uint64]*c18inode{}, dirs: map[uint64]map[string]uint64{}}
	m.nodes[1] = &c18inode{dir: true, linked: true, lookups: 1}
	m.dirs[1] = map[string]uint64{}
	return m
}

func (m *c18model) canon() string {
	var parts []string
	var walk func(d uint64, path string)
	walk = func(d uint64, path string) {
		var names []string
		for n := range m.dirs[d] {
			names = append(names, n)
		}
		sort.Strings(names)
		for _, n := range names {
			id := m.dirs[d][n]
			nd := m.nodes[id]
			if nd.dir {
				parts = append(parts, fmt.Sprintf("%s/%s#%d(l%d)/", path, n, id, nd.lookups))
				walk(id, path+"/"+n)
			} else {
				parts = append(parts, fmt.Sprintf("%s/%s#%d(l%d)=%q", path, n, id, nd.lookups, nd.data))
			}
		}
	}
	walk(1, "")
	var orphans []string
	for id, nd := range m.nodes {
		if !nd.linked && id != 1 {
			orphans = append(orphans, fmt.Sprintf("orphan#%d(l%d,dir=%v)", id, nd.lookups, nd.dir))
		}
	}
	sort.Strings(orphans)
	return strings.Join(parts, " ") + " | " + strings.Join(orphans, " ")
}

func (m *c18model) gc(id uint64) {
	if nd, ok := m.nodes[id]; ok && id != 1 && !nd.linked && nd.lookups <= 0 {
		delete(m.nodes, id)
		delete(m.dirs, id)
		m.freed++
	}
}

// files returns path -> content of the visible tree.
func (m *c18model) files() map[string][]byte {
	out := map[string][]byte{}
	var walk func(d uint64, path string)
	walk = func(d uint64, path string) {
		for n, id := range m.dirs[d] {
			p := n
			if path != "" {
				p = path + "/" + n
			}
			if m.nodes[id].dir {
				walk(id, p)
			} else {
				out[p] = m.nodes[id].data
			}
		}
	}
	walk(1, "")
	return out
}

// enabled lists the operations offered in this state, simplest first.
func (m *c18model) enabled() []c18op {
	var ops []c18op
	var dirs []uint64
	for id, nd := range m.nodes {
		if nd.dir && nd.linked {
			dirs = append(dirs, id)
		}
	}
	sort.Slice(dirs, func(i, j int) bool { return dirs[i] < dirs[j] })
	names := []string{"a", "b"}
	for _, d := range dirs {
		for _, n := range names {
			child, exists := m.dirs[d][n]
			if !exists {
				ops = append(ops, c18op{Kind: "create", P: d, Name: n, Class: "create"}, c18op{Kind: "mkdir", P: d, Name: n, Class: "mkdir"},
					c18op{Kind: "lookup", P: d, Name: n, Class: "lookup-absent"})
				if d == 1 && n == "a" {
					ops = append(ops, c18op{Kind: "unlink", P: d, Name: n, Class: "unlink-absent"}, c18op{Kind: "rmdir", P: d, Name: n, Class: "rmdir-absent"})
				}
				continue
			}
			ops = append(ops, c18op{Kind: "lookup", P: d, Name: n, Class: "lookup"})
			ops = append(ops, c18op{Kind: "create", P: d, Name: n, Class: "create-existing"}, c18op{Kind: "mkdir", P: d, Name: n, Class: "mkdir-existing"})
			if m.nodes[child].dir {
				cls := "rmdir"
				if len(m.dirs[child]) > 0 {
					cls = "rmdir-non-empty"
				}
				ops = append(ops, c18op{Kind: "rmdir", P: d, Name: n, Class: cls})
			} else {
				ops = append(ops, c18op{Kind: "unlink", P: d, Name: n, Class: "unlink"})
			}
			for _, d2 := range dirs {
				for _, n2 := range names {
					cls := "rename"
					if t, ok := m.dirs[d2][n2]; ok {
						switch {
						case d2 == d && n2 == n:
							cls = "rename-onto-itself"
						case m.nodes[t].dir:
							cls = "rename-onto-directory"
						default:
							cls = "rename-onto-file"
						}
					}
					if m.nodes[child].dir && (d2 == child || m.isUnder(d2, child)) {
						cls = "rename-into-own-subtree"
					}
					ops = append(ops, c18op{Kind: "rename", P: d, Name: n, P2: d2, Name2: n2, Class: cls})
				}
			}
		}
	}
	var inos []uint64
	for id := range m.nodes {
		inos = append(inos, id)
	}
	sort.Slice(inos, func(i, j int) bool { return inos[i] < inos[j] })
	for _, id := range inos {
		nd := m.nodes[id]
		if id == 1 || nd.lookups <= 0 {
			continue
		}
		if !nd.dir {
			for _, off := range []int{0, 3} {
				for _, data := range []string{"x", "yz"} {
					ops = append(ops, c18op{Kind: "write", P: id, Off: off, Data: data, Class: "write"})
				}
			}
			for _, sz := range []uint64{0, 1, 5} {
				ops = append(ops, c18op{Kind: "truncate", P: id, Size: sz, Class: "truncate"})
			}
		}
		for n := 1; n <= nd.lookups; n++ {
			cls := "forget"
			if n == nd.lookups && !nd.linked {
				cls = "forget-last-reference-of-unlinked"
			}
			ops = append(ops, c18op{Kind: "forget", P: id, N: n, Class: cls})
		}
	}
	return ops
}

func (m *c18model) isUnder(d, ancestor uint64) bool {
	for d != 1 && d != 0 {
		if d == ancestor {
			return true
		}
		d = m.nodes[d].parent
	}
	return false
}

type c18fs struct {
	fs   fuseutil.FileSystem
	mfs  *dfuse.MutableFS
	w    *World
	dir  string
	bndl *core.Bundle
}

func newC18fs() *c18fs {
	dir, err := os.MkdirTemp(c16scratchBase(), "verif-c18-")
	if err != nil {
		panic(err)
	}
	w := NewWorld()
	w.Blob.NoJournal = true
	_ = mkRepo(w.Stores(), "r")
	cons := localfs.New(afero.NewBasePathFs(afero.NewOsFs(), dir), localfs.WithRetry(false), localfs.WithLogger(nopLogger))
	b := core.NewBundle(core.Repo("r"), core.ContextStores(w.Stores()), core.ConsumableStore(cons), core.BundleDescriptor(newBundleDesc(64, "mount")), core.Logger(nopLogger))
	mfs, err := dfuse.NewMutableFS(b, dfuse.Logger(nopLogger))
	if err != nil {
		panic(err)
	}
	return &c18fs{fs: mfs.VerifFS(), mfs: mfs, w: w, dir: dir, bndl: b}
}

var c18closed atomic.Int64

// close removes the staging directory. The mount opens a new backing file handle on every read and write and leaves
// closing them to the garbage collector's finalizers; with thousands of short-lived mounts per second in one process the
// descriptors would run out (EMFILE surfaces as EIO), so a collection is forced every few hundred mounts.
func (f *c18fs) close() {
	os.RemoveAll(f.dir)
	if c18closed.Add(1)%256 == 0 {
		runtime.GC()
	}
}

// staging lists the backing files (named by inode number) with their content.
func (f *c18fs) staging() string {
	des, _ := os.ReadDir(f.dir)
	var l []string
	for _, de := range des {
		if de.Type().IsRegular() {
			b, _ := os.ReadFile(f.dir + "/" + de.Name())
			l = append(l, fmt.Sprintf("%s=%q", de.Name(), b))
		}
	}
	sort.Strings(l)
	return strings.Join(l, ",")
}

func errno(err error) string {
	switch err {
	case nil:
		return "ok"
	case jfuse.ENOENT:
		return "ENOENT"
	case jfuse.EEXIST:
		return "EEXIST"
	case jfuse.ENOTEMPTY:
		return "ENOTEMPTY"
	case jfuse.ENOTDIR:
		return "ENOTDIR"
	case jfuse.ENOSYS:
		return "ENOSYS"
	case jfuse.EIO:
		return "EIO"
	case jfuse.EINVAL:
		return "EINVAL"
	}
	return "err:" + err.Error()
}

// step applies op to the implementation and to the model; returns a violation message ("" = agreement).
func c18step(f *c18fs, m *c18model, op c18op) (msg string) {
	ctx := context.Background()
	defer func() {
		if r := recover(); r != nil {
			msg = fmt.Sprintf("panic: %v", r)
		}
	}()
	before := f.mfs.VerifDump()
	declined := func(err error, want string) string {
		if err == jfuse.ENOSYS {
			if f.mfs.VerifDump() != before {
				return "answered ENOSYS but changed its state"
			}
			return "" // declined
		}
		return fmt.Sprintf("returned %s, a POSIX tree returns %s", errno(err), want)
	}
	switch op.Kind {
	case "create", "mkdir":
		var entry fuseops.ChildInodeEntry
		var err error
		if op.Kind == "create" {
			o := &fuseops.CreateFileOp{Parent: fuseops.InodeID(op.P), Name: op.Name}
			err = f.fs.CreateFile(ctx, o)
			entry = o.Entry
		} else {
			o := &fuseops.MkDirOp{Parent: fuseops.InodeID(op.P), Name: op.Name}
			err = f.fs.MkDir(ctx, o)
			entry = o.Entry
		}
		if _, exists := m.dirs[op.P][op.Name]; exists {
			if err != jfuse.EEXIST {
				return declined(err, "EEXIST")
			}
			return ""
		}
		if err != nil {
			return declined(err, "ok")
		}
		id := uint64(entry.Child)
		if old, clash := m.nodes[id]; clash {
			return fmt.Sprintf("new entry got inode %d which is still in use (linked=%v lookups=%d)", id, old.linked, old.lookups)
		}
		m.nodes[id] = &c18inode{dir: op.Kind == "mkdir", linked: true, lookups: 1, parent: op.P, name: op.Name, data: []byte{}}
		if op.Kind == "mkdir" {
			m.dirs[id] = map[string]uint64{}
		}
		m.dirs[op.P][op.Name] = id
	case "lookup":
		o := &fuseops.LookUpInodeOp{Parent: fuseops.InodeID(op.P), Name: op.Name}
		err := f.fs.LookUpInode(ctx, o)
		id, exists := m.dirs[op.P][op.Name]
		if !exists {
			if err != jfuse.ENOENT {
				return declined(err, "ENOENT")
			}
			return ""
		}
		if err != nil {
			return declined(err, "ok")
		}
		if uint64(o.Entry.Child) != id {
			return fmt.Sprintf("lookup returned inode %d, the entry was created with inode %d", o.Entry.Child, id)
		}
		if o.Entry.Attributes.Mode.IsDir() != m.nodes[id].dir || (!m.nodes[id].dir && o.Entry.Attributes.Size != uint64(len(m.nodes[id].data))) {
			return fmt.Sprintf("lookup attributes dir=%v size=%d, model dir=%v size=%d", o.Entry.Attributes.Mode.IsDir(), o.Entry.Attributes.Size, m.nodes[id].dir, len(m.nodes[id].data))
		}
		m.nodes[id].lookups++
	case "unlink", "rmdir":
		var err error
		if op.Kind == "unlink" {
			err = f.fs.Unlink(ctx, &fuseops.UnlinkOp{Parent: fuseops.InodeID(op.P), Name: op.Name})
		} else {
			err = f.fs.RmDir(ctx, &fuseops.RmDirOp{Parent: fuseops.InodeID(op.P), Name: op.Name})
		}
		id, exists := m.dirs[op.P][op.Name]
		switch {
		case !exists:
			if err != jfuse.ENOENT {
				return declined(err, "ENOENT")
			}
		case op.Kind == "rmdir" && len(m.dirs[id]) > 0:
			if err != jfuse.ENOTEMPTY {
				return declined(err, "ENOTEMPTY")
			}
		default:
			if err != nil {
				return declined(err, "ok")
			}
			delete(m.dirs[op.P], op.Name)
			m.nodes[id].linked = false
			m.gc(id)
		}
	case "rename":
		err := f.fs.Rename(ctx, &fuseops.RenameOp{OldParent: fuseops.InodeID(op.P), OldName: op.Name, NewParent: fuseops.InodeID(op.P2), NewName: op.Name2})
		src, exists := m.dirs[op.P][op.Name]
		if !exists {
			if err != jfuse.ENOENT {
				return declined(err, "ENOENT")
			}
			return ""
		}
		if op.P == op.P2 && op.Name == op.Name2 {
			if err != nil {
				return declined(err, "ok (no-op)")
			}
			return ""
		}
		if m.nodes[src].dir && (op.P2 == src || m.isUnder(op.P2, src)) {
			if err == nil {
				return "moved a directory into its own subtree (EINVAL expected)"
			}
			if err == jfuse.ENOSYS {
				return declined(err, "EINVAL")
			}
			return ""
		}
		if dst, ok := m.dirs[op.P2][op.Name2]; ok {
			sd, dd := m.nodes[src].dir, m.nodes[dst].dir
			switch {
			case sd && !dd:
				if err == nil {
					return "renamed a directory onto a file (ENOTDIR expected)"
				}
				return declinedOrErr(declined, err, "ENOTDIR")
			case !sd && dd:
				if err == nil {
					return "renamed a file onto a directory (EISDIR expected)"
				}
				return declinedOrErr(declined, err, "EISDIR")
			case sd && dd && len(m.dirs[dst]) > 0:
				if err == nil {
					return "renamed a directory onto a non-empty directory (ENOTEMPTY expected)"
				}
				return declinedOrErr(declined, err, "ENOTEMPTY")
			}
			if err != nil {
				return declined(err, "ok")
			}
			m.nodes[dst].linked = false
			delete(m.dirs[op.P2], op.Name2)
			m.gc(dst)
		} else if err != nil {
			return declined(err, "ok")
		}
		delete(m.dirs[op.P], op.Name)
		m.dirs[op.P2][op.Name2] = src
		m.nodes[src].parent, m.nodes[src].name = op.P2, op.Name2
	case "write":
		err := f.fs.WriteFile(ctx, &fuseops.WriteFileOp{Inode: fuseops.InodeID(op.P), Offset: int64(op.Off), Data: []byte(op.Data)})
		if err != nil {
			return declined(err, "ok")
		}
		nd := m.nodes[op.P]
		if need := op.Off + len(op.Data); need > len(nd.data) {
			nd.data = append(nd.data, make([]byte, need-len(nd.data))...)
		}
		copy(nd.data[op.Off:], op.Data)
	case "truncate":
		sz := op.Size
		o := &fuseops.SetInodeAttributesOp{Inode: fuseops.InodeID(op.P), Size: &sz}
		err := f.fs.SetInodeAttributes(ctx, o)
		if err != nil {
			return declined(err, "ok")
		}
		nd := m.nodes[op.P]
		if int(sz) <= len(nd.data) {
			nd.data = nd.data[:sz]
		} else {
			nd.data = append(nd.data, make([]byte, int(sz)-len(nd.data))...)
		}
		if o.Attributes.Size != sz {
			return fmt.Sprintf("truncate to %d reports size %d", sz, o.Attributes.Size)
		}
	case "forget":
		err := f.fs.ForgetInode(ctx, &fuseops.ForgetInodeOp{Inode: fuseops.InodeID(op.P), N: uint64(op.N)})
		if err != nil {
			return declined(err, "ok")
		}
		m.nodes[op.P].lookups -= op.N
		m.gc(op.P)
	}
	return ""
}

func declinedOrErr(declined func(error, string) string, err error, want string) string {
	if err == jfuse.ENOSYS {
		return declined(err, want)
	}
	return "" // any errno is accepted for these corner cases as long as the rename is refused
}

// c18battery observes a state without changing it (except the final commit, done on a throw-away instance).
func c18battery(f *c18fs, m *c18model, viol func(sig, detail string)) {
	ctx := context.Background()
	safe := func(what string, fn func()) {
		defer func() {
			if r := recover(); r != nil {
				viol("panic|"+what, fmt.Sprint(r))
			}
		}()
		fn()
	}
	seen := map[uint64]string{}
	for d, children := range m.dirs {
		if !m.nodes[d].linked {
			continue
		}
		for n, id := range children {
			if prev, dup := seen[id]; dup {
				viol("two-live-entries-share-an-inode", fmt.Sprintf("inode %d: %s and %d/%s", id, prev, d, n))
			}
			seen[id] = fmt.Sprintf("%d/%s", d, n)
		}
	}
	for id, nd := range m.nodes {
		if !nd.linked {
			continue
		}
		id, nd := id, nd
		safe("getattr", func() {
			o := &fuseops.GetInodeAttributesOp{Inode: fuseops.InodeID(id)}
			if err := f.fs.GetInodeAttributes(ctx, o); err != nil {
				viol("getattr-error", fmt.Sprintf("inode %d: %s", id, errno(err)))
				return
			}
			if o.Attributes.Mode.IsDir() != nd.dir {
				viol("getattr-type", fmt.Sprintf("inode %d dir=%v, model %v", id, o.Attributes.Mode.IsDir(), nd.dir))
			}
			if !nd.dir && o.Attributes.Size != uint64(len(nd.data)) {
				viol("getattr-size", fmt.Sprintf("inode %d size %d, model %d", id, o.Attributes.Size, len(nd.data)))
			}
			// link count of a POSIX tree: 1 for a linked file, 2 (root: what the empty mount reports) + number of sub-directories for a directory (the mount
			// relies on it: a directory whose count reaches 0 is treated as unlinked when the kernel forgets it)
			wantLinks := uint32(1)
			if nd.dir {
				wantLinks = 2
				if id == 1 {
					wantLinks = c18rootLinks() // the mount's own convention for its empty root
				}
				for _, c := range m.dirs[id] {
					if cn := m.nodes[c]; cn != nil && cn.dir {
						wantLinks++
					}
				}
			}
			if o.Attributes.Nlink != wantLinks {
				viol(fmt.Sprintf("getattr-nlink|dir=%v", nd.dir), fmt.Sprintf("inode %d reports %d links, a POSIX tree has %d", id, o.Attributes.Nlink, wantLinks))
			}
		})
		if nd.dir {
			var names []string
			for n := range m.dirs[id] {
				names = append(names, n)
			}
			sort.Strings(names)
			for _, buf := range []int{32, 64, 4096} {
				buf := buf
				safe("readdir", func() {
					got := map[string]int{}
					var offset fuseops.DirOffset
					for iter := 0; iter < len(names)+3; iter++ {
						o := &fuseops.ReadDirOp{Inode: fuseops.InodeID(id), Offset: offset, Dst: make([]byte, buf)}
						if err := f.fs.ReadDir(ctx, o); err != nil {
							viol("readdir-error", fmt.Sprintf("dir %d offset %d: %s", id, offset, errno(err)))
							return
						}
						ents, perr := parseDirents(o.Dst[:o.BytesRead])
						if perr != nil {
							viol("readdir-malformed", perr.Error())
							return
						}
						if len(ents) == 0 {
							break
						}
						for _, e := range ents {
							got[e.Name]++
							offset = e.Offset
							if want := m.dirs[id][e.Name]; want != 0 && uint64(e.Inode) != want {
								viol("readdir-inode-differs", fmt.Sprintf("dir %d entry %s inode %d, model %d", id, e.Name, e.Inode, want))
							}
						}
					}
					for _, n := range names {
						if got[n] != 1 {
							kind := "missed"
							if got[n] > 1 {
								kind = "repeated"
							}
							viol("readdir-child-"+kind, fmt.Sprintf("dir %d (children %v) read with a %d-byte buffer: %q returned %d times", id, names, buf, n, got[n]))
							return
						}
					}
					if len(got) != len(names) {
						viol("readdir-extra-entry", fmt.Sprintf("dir %d lists %v, model %v", id, got, names))
					}
				})
			}
		} else {
			safe("readfile", func() {
				for _, q := range [][2]int{{0, len(nd.data)}, {0, len(nd.data) + 4}, {1, 2}} {
					if q[0] > len(nd.data) {
						continue
					}
					o := &fuseops.ReadFileOp{Inode: fuseops.InodeID(id), Offset: int64(q[0]), Dst: make([]byte, q[1])}
					err := f.fs.ReadFile(ctx, o)
					end := q[0] + q[1]
					if end > len(nd.data) {
						end = len(nd.data)
					}
					want := nd.data[q[0]:end]
					where := "inside"
					if q[0]+q[1] > len(nd.data) {
						where = "reaching-eof"
					}
					if q[1] == 0 {
						where = "zero-length"
					}
					if err != nil {
						viol("readfile-error|"+where, fmt.Sprintf("inode %d off=%d len=%d (size %d): %s", id, q[0], q[1], len(nd.data), errno(err)))
						continue
					}
					if o.BytesRead != len(want) || !bytes.Equal(o.Dst[:o.BytesRead], want) {
						viol("readfile-bytes|"+where, fmt.Sprintf("inode %d off=%d len=%d: got %q want %q", id, q[0], q[1], o.Dst[:o.BytesRead], want))
					}
				}
			})
		}
	}
	// commit what the mount shows
	safe("commit", func() {
		if err := f.mfs.Commit(); err != nil {
			viol("commit-error", err.Error())
			return
		}
		want := m.files()
		ents, err := bundleEntries(f.w.Stores(), "r", f.bndl.BundleID)
		if err != nil {
			viol("committed-bundle-unreadable", err.Error())
			return
		}
		var got, wantN []string
		leadingSlash := false
		for n := range ents {
			got = append(got, n)
		}
		for n := range want {
			wantN = append(wantN, n)
		}
		// the mutable mount names committed entries with a leading "/" (the root directory has an empty name): a
		// download writes them to the same place, so the comparison is made on the cleaned path (noted in the evidence)
		clean := map[string]string{}
		for i, g := range got {
			if strings.HasPrefix(g, "/") {
				got[i] = strings.TrimPrefix(g, "/")
				leadingSlash = true
			}
			clean[got[i]] = ents[g]
		}
		sort.Strings(got)
		sort.Strings(wantN)
		if strings.Join(got, "|") != strings.Join(wantN, "|") {
			lead := false
			for _, g := range got {
				if strings.HasPrefix(g, "/") {
					lead = true
				}
			}
			kind := "committed-entries-differ-from-visible-tree"
			if lead && len(got) == len(wantN) {
				kind = "committed-paths-have-a-leading-slash"
			}
			viol(kind, fmt.Sprintf("bundle entries %q, visible files %q", got, wantN))
			return
		}
		dest := lib.NewMemStore("dest")
		dest.NoCRC = true
		if _, err := downloadBundle(f.w.Stores(), "r", f.bndl.BundleID, dest, 0); err != nil {
			viol("committed-bundle-not-downloadable", err.Error())
			return
		}
		snap := dest.Snapshot()
		_ = leadingSlash
		for n, d := range want {
			if _, ok := snap[n]; !ok {
				snap[n] = snap["/"+n]
			}
			if !bytes.Equal(snap[n], d) {
				viol("committed-file-content-differs", fmt.Sprintf("%q: committed %q, mount shows %q", n, snap[n], d))
			}
		}
	})
}

var (
	c18rootOnce  sync.Once
	c18rootNlink uint32
)

// c18rootLinks is the link count an empty mount reports for its root.
func c18rootLinks() uint32 {
	c18rootOnce.Do(func() {
		f := newC18fs()
		defer f.close()
		o := &fuseops.GetInodeAttributesOp{Inode: fuseops.RootInodeID}
		if err := f.fs.GetInodeAttributes(context.Background(), o); err == nil {
			c18rootNlink = o.Attributes.Nlink
		}
	})
	return c18rootNlink
}

// build replays a history on a fresh file system; returns nil model if the history no longer applies.
func c18build(h []c18op) (*c18fs, *c18model, string) {
	for attempt := 0; ; attempt++ {
		f := newC18fs()
		m := newC18model()
		failed, msg := -1, ""
		for i, op := range h {
			if msg = c18step(f, m, op); msg != "" {
				failed = i
				break
			}
		}
		if failed < 0 {
			return f, m, ""
		}
		// Every proper prefix of h was executed and compared with the model before (BFS order): a disagreement at an
		// EARLIER step than the last one is not a property of this history but of the process (descriptor exhaustion,
		// see close); an EIO at the last step has the same cause. Collect, replay again; only a disagreement that persists is
		// reported.
		if (failed < len(h)-1 || strings.Contains(msg, "EIO")) && attempt < 3 {
			f.close()
			runtime.GC()
			time.Sleep(50 * time.Millisecond)
			c18prefixRetries.Add(1)
			continue
		}
		return f, m, fmt.Sprintf("step %d %s: %s", failed, h[failed], msg)
	}
}

var c18prefixRetries atomic.Int64

func TestC18(t *testing.T) {
	if os.Getenv("VERIF_C18_WORKER") != "" {
		c18worker(t)
		return
	}
	rep := lib.NewReport("C18", "model_checking")
	defer rep.Finish(t)
	depth, extra := 4, 2
	if lib.Thorough() {
		depth, extra = 6, 1
	}
	rep.Rule = fmt.Sprintf("BFS over histories (depth <=%d; states first reached at that depth whose history released an inode - unlinked and forgotten, so inode numbers and staging files get recycled - are explored %d more level(s)) of CreateFile / MkDir / WriteFile(off 0|3, 'x'|'yz') / SetInodeAttributes(size 0|1|5) / Rename(all directory x name pairs) / Unlink / RmDir / LookUpInode / ForgetInode(n <= lookup count), names {a,b}, any live directory as parent, on the real fsMutable (fresh instance + replay per state, scratch staging dir), de-duplicated on (POSIX tree model with lookup counts, implementation dump of lookup tree / readdir map / node store / inode allocator, staging files with content); every transition compared with the model (result, errno; ENOSYS = declined if the state is unchanged); in every state: getattr (type, size, link count), ReadDir with the resume protocol at 3 buffer sizes, ReadFile, inode uniqueness, and a Commit whose bundle must equal the visible tree; a fatal error of the process is a violation; plus the inode allocator on its own (verif hook): BFS over alloc / free histories with <=4 live inodes to depth 12 (thorough 16), an allocation never returns a live number; distinct = distinct states", depth, extra)
	skip := []string{}
	parallel := true
	for attempt := 0; attempt < 24; attempt++ {
		dir, _ := os.MkdirTemp("", "verif-c18w-")
		journal, out := dir+"/journal", dir+"/out.json"
		cmd := exec.Command(os.Args[0], "-test.run", "^TestC18$", "-test.timeout", "0")
		cmd.Env = append(os.Environ(), "VERIF_C18_WORKER=1", "VERIF_C18_DEPTH="+fmt.Sprint(depth), "VERIF_C18_SKIP="+strings.Join(skip, ","), "VERIF_C18_JOURNAL="+journal, "VERIF_WORKER_OUT="+out, "VERIF_C18_EXTRA="+fmt.Sprint(extra))
		if !parallel {
			cmd.Env = append(cmd.Env, "VERIF_C18_WORKERS=1")
		}
		var buf bytes.Buffer
		cmd.Stdout, cmd.Stderr = &buf, &buf
		done := make(chan error, 1)
		_ = cmd.Start()
		go func() { done <- cmd.Wait() }()
		var werr error
		budget := 8 * time.Minute
		if lib.Thorough() {
			budget = 50 * time.Minute
		}
		timedOut := false
		select {
		case werr = <-done:
		case <-time.After(budget):
			timedOut = true
			_ = cmd.Process.Kill()
			<-done
		}
		var part lib.Report
		if b, err := os.ReadFile(out); err == nil && json.Unmarshal(b, &part) == nil && werr == nil && !timedOut {
			rep.Merge(&part)
			os.RemoveAll(dir)
			break
		}
		if parallel {
			// the worker died with several operations in flight: run again, one operation at a time, to learn which
			os.RemoveAll(dir)
			parallel = false
			continue
		}
		parallel = true
		jb, _ := os.ReadFile(journal)
		os.RemoveAll(dir)
		var j struct {
			Class   string
			History []c18op
		}
		if json.Unmarshal(jb, &j) != nil || j.Class == "" {
			rep.NotExhaustive("worker died before journaling: " + lib.Tail(buf.String(), 600))
			break
		}
		how := "fatal error"
		if timedOut {
			how = "hang"
		}
		reason := lib.Tail(buf.String(), 1500)
		if i := strings.Index(buf.String(), "fatal error:"); i >= 0 {
			reason = buf.String()[i:min2(i+300, len(buf.String()))]
		} else if i := strings.Index(buf.String(), "panic:"); i >= 0 {
			reason = buf.String()[i:min2(i+300, len(buf.String()))]
		}
		rep.Violate("C18|process-dies|"+j.Class, fmt.Sprintf("%s while executing %v: %s", how, j.History, reason), j.History)
		skip = append(skip, j.Class)
		rep.Note("op class skipped after killing the process: " + j.Class)
	}
	rep.Set("op_classes_skipped_after_fatal", skip)
	c18alloc(rep)
}

// c18alloc explores the inode allocator on its own (verif hook): BFS over alloc / free(i) histories with at most 4 live
// inodes, to depth 12 (thorough 16), de-duplicated on (live set, allocator dump). Invariant: an allocation never returns
// a number that is live, and never the root's.
func c18alloc(rep *lib.Report) {
	type aop struct {
		Free uint64 // 0 = alloc
	}
	depth := 12
	if lib.Thorough() {
		depth = 16
	}
	build := func(h []aop) (*dfuse.VerifINodes, map[uint64]bool, string) {
		g := dfuse.NewVerifINodes()
		live := map[uint64]bool{}
		for i, o := range h {
			if o.Free != 0 {
				g.Free(o.Free)
				delete(live, o.Free)
				continue
			}
			n := g.Alloc()
			if live[n] || n <= 1 {
				return g, live, fmt.Sprintf("step %d: alloc returned %d while inodes %v are live", i, n, keysOfU64(live))
			}
			live[n] = true
		}
		return g, live, ""
	}
	hist := func(h []aop) string {
		var p []string
		for _, o := range h {
			if o.Free == 0 {
				p = append(p, "alloc")
			} else {
				p = append(p, fmt.Sprintf("free(%d)", o.Free))
			}
		}
		return strings.Join(p, " ")
	}
	res := lib.BFS(lib.BFSConfig[aop]{
		Alphabet: func(h []aop) []aop {
			_, live, msg := build(h)
			if msg != "" {
				return nil
			}
			var ops []aop
			if len(live) < 4 {
				ops = append(ops, aop{})
			}
			for _, i := range keysOfU64(live) {
				ops = append(ops, aop{Free: i})
			}
			return ops
		},
		Canon: func(h []aop) string {
			g, live, msg := build(h)
			rep.Eval(1)
			if msg != "" {
				rep.Violate("C18|allocator|live-inode-handed-out", fmt.Sprintf("history [%s]: %s (allocator %s)", hist(h), msg, g.Dump()), hist(h))
				return ""
			}
			return fmt.Sprint(keysOfU64(live)) + " || " + g.Dump()
		},
		MaxDepth:  depth,
		MaxStates: 2_000_000,
	})
	rep.AddStates(int64(res.States), int64(res.Transitions), int64(res.Transitions))
	rep.Set("allocator_states", res.States)
	rep.Set("allocator_transitions", res.Transitions)
	rep.Set("allocator_depth", res.Depth)
}

func keysOfU64(m map[uint64]bool) []uint64 {
	var o []uint64
	for k := range m {
		o = append(o, k)
	}
	sort.Slice(o, func(i, j int) bool { return o[i] < o[j] })
	return o
}

func min2(a, b int) int {
	if a < b {
		return a
	}
	return b
}

func c18worker(t *testing.T) {
	rep := lib.NewReport("C18", "model_checking")
	defer rep.Finish(t)
	depth := 4
	fmt.Sscan(os.Getenv("VERIF_C18_DEPTH"), &depth)
	skip := map[string]bool{}
	for _, s := range strings.Split(os.Getenv("VERIF_C18_SKIP"), ",") {
		if s != "" {
			skip[s] = true
		}
	}
	journal := os.Getenv("VERIF_C18_JOURNAL")
	var note func(h []c18op, class string)
	note = func(h []c18op, class string) {
		b, _ := json.Marshal(map[string]interface{}{"Class": class, "History": h})
		_ = os.WriteFile(journal, b, 0o644)
	}
	start := time.Now()
	budget := 6 * time.Minute
	if lib.Thorough() {
		budget = 45 * time.Minute
	}
	workers := runtime.NumCPU()
	fmt.Sscan(os.Getenv("VERIF_C18_WORKERS"), &workers)
	extra := 1
	fmt.Sscan(os.Getenv("VERIF_C18_EXTRA"), &extra)
	var capped atomic.Bool
	var jmu sync.Mutex
	noteSeq := note
	note = func(h []c18op, class string) {
		if workers > 1 {
			return // several operations are in flight: the parent re-runs sequentially to attribute a fatal error
		}
		jmu.Lock()
		noteSeq(h, class)
		jmu.Unlock()
	}
	res := lib.BFS(lib.BFSConfig[c18op]{
		Workers:    workers,
		ExtraDepth: extra,
		Deepen: func(h []c18op) bool { // states whose history released an inode: the allocator and the staging files are about to be recycled
			f, m, msg := c18build(h)
			defer f.close()
			return msg == "" && m.freed > 0
		},
		Alphabet: func(h []c18op) []c18op {
			if capped.Load() || time.Since(start) > budget {
				capped.Store(true)
				return nil
			}
			f, m, msg := c18build(h)
			defer f.close()
			if msg != "" {
				return nil
			}
			var ops []c18op
			for _, o := range m.enabled() {
				if !skip[o.Class] {
					ops = append(ops, o)
				}
			}
			return ops
		},
		Canon: func(h []c18op) string {
			if capped.Load() || time.Since(start) > budget {
				capped.Store(true)
				return "" // out of time: the rest of this level is not explored (reported as not exhaustive)
			}
			if len(h) > 0 {
				note(h, h[len(h)-1].Class)
			}
			f, m, msg := c18build(h)
			defer f.close()
			rep.Eval(1)
			if msg != "" {
				last := h[len(h)-1]
				rep.Violate("C18|step|"+last.Class+"|"+c18msgClass(msg), fmt.Sprintf("history %v: %s", h, msg), h)
				return "" // do not explore beyond a disagreement
			}
			// the staging files are part of the state: a released inode's file stays behind and the number is recycled
			return m.canon() + " || " + f.mfs.VerifDump() + " || staging " + f.staging()
		},
		Visit: func(h []c18op) {
			if capped.Load() {
				return
			}
			cls := "initial"
			if len(h) > 0 {
				cls = h[len(h)-1].Class
			}
			note(h, "battery-after-"+cls)
			f, m, msg := c18build(h)
			defer f.close()
			if msg != "" {
				return
			}
			c18battery(f, m, func(sig, detail string) {
				rep.Violate("C18|state|"+sig, fmt.Sprintf("after %v (model %s): %s", h, m.canon(), detail), h)
			})
		},
		MaxDepth:  depth,
		MaxStates: 400000,
	})
	rep.AddStates(int64(res.States), int64(res.Transitions), int64(res.Transitions))
	for k := range res.Keys {
		rep.Outcome(k)
	}
	if capped.Load() && res.Depth > 0 {
		rep.Set("depth_completed", res.Depth-1) // the level that was running when the time budget ended is incomplete
		rep.Set("depth_partially_explored", res.Depth)
	} else {
		rep.Set("depth_completed", res.Depth)
	}
	rep.Set("deepened_roots", res.DeepenedRoots)
	rep.Set("states_beyond_base_depth", res.StatesBeyondMaxDepth)
	rep.Set("bfs_workers", workers)
	rep.Set("prefix_replays_retried_after_resource_exhaustion", c18prefixRetries.Load())
	if capped.Load() {
		rep.NotExhaustive(fmt.Sprintf("time budget hit while exploring depth %d, after %d states; every shallower depth is complete", res.Depth, res.States))
	}
	rep.Sample(map[string]interface{}{"deepest_history": fmt.Sprint(res.Deepest)})
}

func c18msgClass(msg string) string {
	switch {
	case strings.HasPrefix(msg[strings.Index(msg, ": ")+2:], "panic"):
		return "panic"
	case strings.Contains(msg, "still in use"):
		return "inode-reused-while-live"
	case strings.Contains(msg, "POSIX tree returns"):
		i := strings.Index(msg, "returned ")
		rest := msg[i+9:]
		return "errno:" + strings.ReplaceAll(strings.SplitN(rest, ",", 2)[0], " ", "") + "-want-" + strings.TrimSpace(rest[strings.LastIndex(rest, "returns ")+8:])
	case strings.Contains(msg, " expected)"):
		return "accepted-although-posix-refuses"
	case strings.Contains(msg, "ENOSYS but changed"):
		return "enosys-with-side-effects"
	}
	return "other"
}
