package props

import (
	"bytes"
	"context"
	"fmt"
	"gopkg.in/yaml.v2"
	"sort"
	"strings"
	"testing"
	"time"

	context2 "github.com/oneconcern/datamon/pkg/context"
	"github.com/oneconcern/datamon/pkg/core"
	"github.com/oneconcern/datamon/pkg/model"
	"verif/harness/lib"
)

// C11 — diamond commit merges splits by latest write, keeping every losing version.
// E1: the real Diamond.Commit with the vmetadata Gets of the split index files gated; the DFS grants them in every
// order (all arrival permutations), for every assignment of contents to (split, path), all four modes.

const c11L = 1 << 20 // leaf size is irrelevant here; a large one keeps cafs.New cheap (its free list is sized by cache/leaf)

var c11contents = map[string][]byte{
	"h1": []byte("content-one"),
	"h2": []byte("content-two-longer"),
	"h3": []byte("third"),
}

// splitAdd mirrors `datamon diamond split add`: NewSplit -> CreateSplit -> Upload.
func splitAdd(stores context2.Stores, repo, diamondID, splitID string, files map[string][]byte) error {
	s := core.NewSplit(repo, diamondID, stores,
		core.SplitDescriptor(model.NewSplitDescriptor(model.SplitID(splitID), model.SplitContributor(model.Contributor{Name: "v", Email: "v@x.io"}))),
		core.SplitConsumableStore(srcStore(files)),
		core.SplitLogger(nopLogger),
	)
	s.BundleDescriptor.LeafSize = c11L
	_, err := core.CreateSplit(repo, diamondID, stores, core.SplitDescriptor(&s.SplitDescriptor), core.SplitLogger(nopLogger))
	if err != nil {
		return fmt.Errorf("split create: %w", err)
	}
	if err = s.Upload(); err != nil {
		return fmt.Errorf("split upload: %w", err)
	}
	return nil
}

// diamondCommit mirrors `datamon diamond commit`: GetDiamond -> NewDiamond(DiamondClone+mode) -> Commit.
func diamondCommit(stores context2.Stores, repo, diamondID string, mode model.ConflictMode) (bundleID string, err error) {
	diamond, err := core.GetDiamond(repo, diamondID, stores, core.DiamondLogger(nopLogger))
	if err != nil {
		return "", fmt.Errorf("get diamond: %w", err)
	}
	d := core.NewDiamond(repo, stores,
		core.DiamondDescriptor(model.NewDiamondDescriptor(model.DiamondClone(diamond), model.DiamondMode(mode))),
		core.DiamondMessage("commit"), core.DiamondLogger(nopLogger))
	d.BundleDescriptor.LeafSize = c11L
	if err = d.Commit(); err != nil {
		return d.BundleID, err
	}
	return d.BundleID, nil
}

func diamondCancel(stores context2.Stores, repo, diamondID string) error {
	diamond, err := core.GetDiamond(repo, diamondID, stores)
	if err != nil {
		return fmt.Errorf("get diamond: %w", err)
	}
	d := core.NewDiamond(repo, stores, core.DiamondDescriptor(model.NewDiamondDescriptor(model.DiamondClone(diamond))), core.DiamondLogger(nopLogger))
	return d.Cancel()
}

// bundleEntries reads the entries of a committed bundle: name -> "hash:size".
func bundleEntries(stores context2.Stores, repo, id string) (map[string]string, error) {
	b := core.NewBundle(core.Repo(repo), core.ContextStores(stores), core.BundleID(id), core.Logger(nopLogger))
	if err := core.DownloadMetadata(context.Background(), b); err != nil {
		return nil, err
	}
	out := map[string]string{}
	for _, e := range b.BundleEntries {
		if _, dup := out[e.NameWithPath]; dup {
			return nil, fmt.Errorf("duplicate entry %q", e.NameWithPath)
		}
		out[e.NameWithPath] = fmt.Sprintf("%s:%d", e.Hash, e.Size)
	}
	return out, nil
}

type c11case struct {
	Splits []map[string]string // per split (in upload-time order): path -> content name
	IDs    []string            // split IDs, same order
	Mode   model.ConflictMode
}

func (c c11case) String() string {
	var parts []string
	for i, s := range c.Splits {
		var kv []string
		for _, p := range []string{"p", ".p"} {
			if v, ok := s[p]; ok {
				kv = append(kv, p+"="+v)
			}
		}
		parts = append(parts, c.IDs[i]+"{"+strings.Join(kv, ",")+"}")
	}
	return string(c.Mode) + " " + strings.Join(parts, " then ")
}

func c11hash(stores context2.Stores) map[string]string {
	// content name -> "hash:size" as a plain upload computes it
	w := NewWorld()
	_ = mkRepo(w.Stores(), "ref")
	files := map[string][]byte{}
	for k, v := range c11contents {
		files[k] = v
	}
	b, err := uploadFiles(w.Stores(), "ref", files, c11L, 0)
	if err != nil {
		panic(err)
	}
	ents, err := bundleEntries(w.Stores(), "ref", b.BundleID)
	if err != nil {
		panic(err)
	}
	return ents
}

func c11scenario(c c11case, hashes map[string]string) *lib.Scenario {
	sc := &lib.Scenario{Name: "commit " + c.String(), AllIntraOrders: true, FreePreempt: true}
	sc.Setup = func(x *lib.Exec) {
		w := NewWorld()
		x.Data["w"] = w
		st := w.Stores()
		if err := mkRepo(st, "r"); err != nil {
			panic(err)
		}
		dd, err := core.CreateDiamond("r", st, core.DiamondLogger(nopLogger))
		if err != nil {
			panic(err)
		}
		x.Data["diamond"] = dd.DiamondID
		for i, s := range c.Splits {
			time.Sleep(time.Second)
			files := map[string][]byte{}
			for p, cn := range s {
				files[p] = c11contents[cn]
			}
			if err := splitAdd(st, "r", dd.DiamondID, c.IDs[i], files); err != nil {
				panic(fmt.Sprintf("setup split %s: %v", c.IDs[i], err))
			}
		}
		time.Sleep(time.Second)
	}
	sc.Phases = [][]lib.ClientFn{{func(x *lib.Exec, id int) error {
		w := x.Data["w"].(*World)
		st := w.Gated(x, id, map[string]func(string, string) bool{"vmeta": func(op, key string) bool {
			return op == "Get" && strings.Contains(key, "/bundle-files-")
		}})
		bid, err := diamondCommit(st, "r", x.Data["diamond"].(string), c.Mode)
		x.Data["bundle"] = bid
		return err
	}}}
	sc.Final = func(x *lib.Exec) {
		w := x.Data["w"].(*World)
		if x.Hung {
			x.Violate("C11|hang|"+string(c.Mode), "commit never returned for "+c.String())
			return
		}
		c11oracle(x, w, c, hashes)
	}
	return sc
}

// c11oracle compares the committed bundle with the specification of the merge.
func c11oracle(x *lib.Exec, w *World, c c11case, hashes map[string]string) {
	st := w.Stores()
	mode := string(c.Mode)
	err := x.ClientErr[0]
	// spec
	winner := map[string]string{}            // path -> content name of the latest upload
	versions := map[string]map[string]bool{} // path -> set of distinct content names
	for _, s := range c.Splits {             // upload-time order
		for p, cn := range s {
			winner[p] = cn
			if versions[p] == nil {
				versions[p] = map[string]bool{}
			}
			versions[p][cn] = true
		}
	}
	conflict := false
	for _, vs := range versions {
		if len(vs) > 1 {
			conflict = true
		}
	}
	if len(winner) == 0 {
		// nothing uploaded at all: an empty commit either way
	}
	if c.Mode == model.ForbidConflicts {
		if conflict != (err != nil) {
			x.Violate(fmt.Sprintf("C11|forbid|conflict=%v|failed=%v", conflict, err != nil), fmt.Sprintf("%s: conflict=%v but commit error=%v", c, conflict, err))
		}
		if err != nil {
			x.SetOutcome("refused")
			return
		}
	} else if err != nil {
		x.Violate("C11|commit-error|"+mode, fmt.Sprintf("%s: %v", c, err))
		return
	}
	ents, eerr := bundleEntries(st, "r", x.Data["bundle"].(string))
	if eerr != nil {
		x.Violate("C11|bundle-unreadable|"+mode, fmt.Sprintf("%s: %v", c, eerr))
		return
	}
	prefix := ".conflicts/"
	if c.Mode == model.EnableCheckpoints {
		prefix = ".checkpoints/"
	}
	var names []string
	for n := range ents {
		names = append(names, n)
	}
	sort.Strings(names)
	var outc []string
	for _, n := range names {
		outc = append(outc, n+"="+ents[n][:6])
	}
	x.SetOutcome(strings.Join(outc, ";"))
	// main tree
	for p, cn := range winner {
		if ents[p] != hashes[cn] {
			x.Violate("C11|main-tree|"+mode, fmt.Sprintf("%s: path %q should hold %s (latest upload), bundle has %q; entries %v", c, p, cn, ents[p], outc))
		}
	}
	covered := map[string]map[string]bool{} // path -> losing content names kept
	for _, n := range names {
		if _, ok := winner[n]; ok {
			continue
		}
		if !strings.HasPrefix(n, prefix) || c.Mode == model.IgnoreConflicts || c.Mode == model.ForbidConflicts {
			x.Violate("C11|unexpected-entry|"+mode, fmt.Sprintf("%s: unexpected entry %q; entries %v", c, n, outc))
			continue
		}
		rest := strings.TrimPrefix(n, prefix)
		i := strings.Index(rest, "/")
		if i < 0 {
			x.Violate("C11|unexpected-entry|"+mode, fmt.Sprintf("%s: malformed conflict path %q", c, n))
			continue
		}
		sid, p := rest[:i], rest[i+1:]
		si := -1
		for k, id := range c.IDs {
			if id == sid {
				si = k
			}
		}
		if si < 0 {
			x.Violate("C11|conflict-entry-unknown-split|"+mode, fmt.Sprintf("%s: entry %q names no split", c, n))
			continue
		}
		cn, has := c.Splits[si][p]
		switch {
		case !has:
			x.Violate("C11|conflict-entry-under-split-that-did-not-upload-the-path|"+mode, fmt.Sprintf("%s: entry %q but split %s never uploaded %q; entries %v", c, n, sid, p, outc))
		case ents[n] != hashes[cn]:
			role := "another-split's-version"
			if ents[n] == hashes[winner[p]] {
				role = "the-winning-version"
			}
			x.Violate("C11|conflict-entry-holds-"+role+"|"+mode, fmt.Sprintf("%s: entry %q should carry split %s's version (%s) but holds %s; entries %v", c, n, sid, cn, ents[n][:6], outc))
		case cn == winner[p]:
			x.Violate("C11|conflict-entry-for-identical-content|"+mode, fmt.Sprintf("%s: entry %q equals the winning content; entries %v", c, n, outc))
		default:
			if covered[p] == nil {
				covered[p] = map[string]bool{}
			}
			covered[p][cn] = true
		}
	}
	if c.Mode == model.EnableConflicts || c.Mode == model.EnableCheckpoints {
		for p, vs := range versions {
			for cn := range vs {
				if cn != winner[p] && !covered[p][cn] {
					x.Violate("C11|losing-version-not-kept|"+mode, fmt.Sprintf("%s: version %s of %q lost: no %s<split>/%s entry under one of its uploaders; entries %v", c, cn, p, prefix, p, outc))
				}
			}
		}
		dd, derr := core.GetDiamond("r", x.Data["diamond"].(string), st)
		if derr != nil {
			x.Violate("C11|diamond-unreadable", derr.Error())
		} else {
			wantC, wantK := conflict && c.Mode == model.EnableConflicts, conflict && c.Mode == model.EnableCheckpoints
			if dd.HasConflicts != wantC || dd.HasCheckpoints != wantK {
				x.Violate("C11|flags|"+mode, fmt.Sprintf("%s: HasConflicts=%v HasCheckpoints=%v, want %v %v", c, dd.HasConflicts, dd.HasCheckpoints, wantC, wantK))
			}
		}
	}
}

func c11cases() []c11case {
	var out []c11case
	opts := []string{"", "h1", "h2"}
	modes := []model.ConflictMode{model.EnableConflicts, model.EnableCheckpoints, model.IgnoreConflicts, model.ForbidConflicts}
	ids := func(n int, rev bool) []string {
		o := make([]string, n)
		for i := range o {
			if rev {
				o[i] = fmt.Sprintf("s%d", n-i)
			} else {
				o[i] = fmt.Sprintf("s%d", i+1)
			}
		}
		return o
	}
	gen := func(n int, paths []string, contentOpts []string) {
		slots := n * len(paths)
		idx := make([]int, slots)
		for {
			var splits []map[string]string
			empty := false
			for s := 0; s < n; s++ {
				m := map[string]string{}
				for pi, p := range paths {
					if v := contentOpts[idx[s*len(paths)+pi]]; v != "" {
						m[p] = v
					}
				}
				if len(m) == 0 {
					empty = true // a split with no file uploads nothing interesting; still legal, keep only for n==1
				}
				splits = append(splits, m)
			}
			if !empty || n == 1 {
				for _, mode := range modes {
					for _, rev := range []bool{false, true} {
						if n == 1 && rev {
							continue
						}
						out = append(out, c11case{Splits: splits, IDs: ids(n, rev), Mode: mode})
					}
				}
			}
			k := 0
			for k < slots {
				idx[k]++
				if idx[k] < len(contentOpts) {
					break
				}
				idx[k] = 0
				k++
			}
			if k == slots {
				break
			}
		}
	}
	gen(1, []string{"p", ".p"}, opts) // a dotted path and its undotted sibling: conflict entries of both must stay apart
	gen(2, []string{"p", ".p"}, opts)
	if lib.Thorough() {
		gen(3, []string{"p", ".p"}, opts)
		gen(3, []string{"p"}, []string{"", "h1", "h2", "h3"})
		gen(4, []string{"p"}, []string{"h1", "h2"})
	} else {
		gen(3, []string{"p"}, opts)
	}
	return out
}

func TestC11(t *testing.T) {
	rep := lib.NewReport("C11", "model_checking")
	defer rep.Finish(t)
	rep.Rule = "for every assignment of contents {absent,h1,h2(,h3)} to (split, path) over 1..3(4) splits uploaded one fake second apart (split IDs co- and counter-ordered with time) x 4 conflict modes: the real Diamond.Commit runs with the Gets of all split index files gated and the DFS releases them in every permutation; oracle = specification of the merge (latest upload wins; losers kept under their uploader; identical content never a conflict; forbid fails iff conflict; flags) + a 1-split diamond equals a plain upload; plus two splits with an overlapping path uploading CONCURRENTLY (blob and vmetadata calls gated, one entry per split index file through the verif hook, one fake second per call, all interleavings within the preemption bound) then a commit: recorded upload times lie between the file's blob write and the split's completion, and the later upload of the shared path wins; plus commits of 2..3 completed splits (1..2 files each, one index file per entry; every other case preceded by a split that completed with no file) with every listing page size 1..10: all files of all splits; plus, for every conflicting assignment of {absent,c1,c2} to 2 splits x 2 paths, a commit refused in forbid mode followed by a second commit on the same Diamond object switched to ignore mode / on a fresh one in each other mode: the bundle equals the one a first commit in that mode gives; distinct = distinct (case, committed entry set)"
	cases := c11cases()
	hashes := c11hash(nil)
	parent := lib.RunCases(t, rep, "TestC11", len(cases), 0, 120*time.Second, func(i int) {
		c := cases[i]
		e := &lib.Explorer{Sc: c11scenario(c, hashes), PreemptBound: -1, MaxExecs: 5000}
		e.Explore(t, rep)
		if len(e.Outcomes) > 1 {
			var os []string
			for o := range e.Outcomes {
				os = append(os, o)
			}
			sort.Strings(os)
			for _, shape := range c11orderShape(os) {
				rep.Violate("C11|result-depends-on-arrival-order|"+string(c.Mode)+"|"+shape, fmt.Sprintf("%s: %d distinct committed entry sets over %d arrival orders: %v", c, len(os), e.Execs, os), map[string]interface{}{"case": c.String()})
			}
		}
		rep.Add("arrival_orders_explored", int64(e.Execs))
	}, func(i int, how, output string) {
		rep.Violate("C11|worker-"+strings.SplitN(how, ":", 2)[0]+"|"+string(cases[i].Mode), fmt.Sprintf("%s: worker %s: %s", cases[i], how, output), map[string]interface{}{"case": cases[i].String()})
	})
	if parent {
		rep.Set("cases", len(cases))
		rep.Sample(map[string]interface{}{"case": cases[len(cases)/2].String()})
		c11timing(t, rep)
		c11pages(t, rep, "C11")
		c11recommit(t, rep)
	}
}

// c11recommit: a commit refused in forbid mode leaves the diamond open; committing again - on the SAME Diamond object
// with its mode switched, or on a fresh object - must give exactly the bundle a first commit in that mode gives
// (differential oracle: the same splits committed once, directly in that mode, in a fresh world).
func c11recommit(t *testing.T, rep *lib.Report) {
	n := 0
	paths := []string{"p", "q"}
	build := func(assign []int) (st context2.Stores, diamondID string) {
		w := NewWorld()
		w.Blob.NoJournal = true
		st = w.Stores()
		if err := mkRepo(st, "r"); err != nil {
			panic(err)
		}
		dd, err := core.CreateDiamond("r", st, core.DiamondLogger(nopLogger))
		if err != nil {
			panic(err)
		}
		for s := 0; s < 2; s++ {
			time.Sleep(time.Second)
			files := map[string][]byte{}
			for i, p := range paths {
				if cn := assign[s*len(paths)+i]; cn > 0 {
					files[p] = []byte(fmt.Sprintf("content #%d", cn))
				}
			}
			if err := splitAdd(st, "r", dd.DiamondID, fmt.Sprintf("s%d", s), files); err != nil {
				panic(err)
			}
		}
		time.Sleep(time.Second)
		return st, dd.DiamondID
	}
	newD := func(st context2.Stores, id string, mode model.ConflictMode) *core.Diamond {
		diamond, err := core.GetDiamond("r", id, st, core.DiamondLogger(nopLogger))
		if err != nil {
			panic(err)
		}
		d := core.NewDiamond("r", st, core.DiamondDescriptor(model.NewDiamondDescriptor(model.DiamondClone(diamond), model.DiamondMode(mode))),
			core.DiamondMessage("commit"), core.DiamondLogger(nopLogger))
		d.BundleDescriptor.LeafSize = c11L
		return d
	}
	for a := 0; a < 81; a++ {
		assign := []int{a % 3, a / 3 % 3, a / 9 % 3, a / 27 % 3}
		conflict := false
		for i := range paths {
			if assign[i] > 0 && assign[len(paths)+i] > 0 && assign[i] != assign[len(paths)+i] {
				conflict = true
			}
		}
		if !conflict {
			continue
		}
		for _, mode := range []model.ConflictMode{model.IgnoreConflicts, model.EnableConflicts, model.EnableCheckpoints} {
			for _, same := range []bool{true, false} {
				if same && mode != model.IgnoreConflicts {
					continue // the path generator for losing versions is bound to the mode at construction: only ignore mode can be switched to
				}
				assign, mode, same := assign, mode, same
				lib.Bubble(t, func() {
					desc := fmt.Sprintf("splits s0,s1 over (p,q) = %v, commit refused in forbid mode, then committed in mode %s on %s", assign, mode, map[bool]string{true: "the same Diamond object", false: "a fresh Diamond object"}[same])
					rp := map[string]interface{}{"assignment": assign, "mode": string(mode), "same_object": same}
					rep.Eval(1)
					n++
					// reference: committed once, directly in that mode
					rst, rid := build(assign)
					rd := newD(rst, rid, mode)
					if err := rd.Commit(); err != nil {
						rep.Violate("C11|recommit|reference-commit-fails", desc+": "+err.Error(), rp)
						return
					}
					want, err := bundleEntries(rst, "r", rd.BundleID)
					if err != nil {
						rep.Violate("C11|recommit|bundle-unreadable", desc+": reference: "+err.Error(), rp)
						return
					}
					st, id := build(assign)
					d := newD(st, id, model.ForbidConflicts)
					if err := d.Commit(); err == nil {
						rep.Violate("C11|recommit|forbid-did-not-refuse", desc, rp)
						return
					}
					if after, err := core.GetDiamond("r", id, st, core.DiamondLogger(nopLogger)); err != nil || after.State != model.DiamondInitialized {
						rep.Violate("C11|recommit|diamond-not-open-after-refusal", fmt.Sprintf("%s: %+v %v", desc, after, err), rp)
						return
					}
					if same {
						d.DiamondDescriptor.Mode = mode
					} else {
						d = newD(st, id, mode)
					}
					if err := d.Commit(); err != nil {
						rep.Violate("C11|recommit|second-commit-fails|same-object="+fmt.Sprint(same), desc+": "+err.Error(), rp)
						return
					}
					got, err := bundleEntries(st, "r", d.BundleID)
					if err != nil {
						rep.Violate("C11|recommit|bundle-unreadable", desc+": "+err.Error(), rp)
						return
					}
					if fmt.Sprint(got) != fmt.Sprint(want) {
						rep.Violate("C11|recommit|bundle-differs-from-a-first-commit|same-object="+fmt.Sprint(same), fmt.Sprintf("%s: bundle %v, a first commit in that mode gives %v", desc, got, want), rp)
					}
				})
			}
		}
	}
	rep.Set("recommit_cases", n)
}

// c11pages: a commit lists the diamond's splits page by page; every page size from 1 to 10 (and splits with 0..2 index
// files, whose keys share the listed prefix) must give the same bundle: all files of all completed splits.
func c11pages(t *testing.T, rep *lib.Report, prop string) {
	n := 0
	for _, nsplits := range []int{2, 3} {
		for _, filesPerSplit := range []int{1, 2} {
			for page := 1; page <= 10; page++ {
				nsplits, filesPerSplit, page := nsplits, filesPerSplit, page
				emptyFirst := (nsplits+filesPerSplit+page)%2 == 0 // every other case starts with a split that completes with no file
				lib.Bubble(t, func() {
					w := NewWorld()
					w.Blob.NoJournal = true
					st := w.Stores()
					if err := mkRepo(st, "r"); err != nil {
						panic(err)
					}
					dd, err := core.CreateDiamond("r", st, core.DiamondLogger(nopLogger))
					if err != nil {
						panic(err)
					}
					want := map[string]bool{}
					core.VerifIndexEntriesPerFile = 1 // one index file per entry: several keys per split under the listed prefix
					if emptyFirst {
						time.Sleep(time.Second)
						if err := splitAdd(st, "r", dd.DiamondID, "s-empty", map[string][]byte{}); err != nil {
							panic(err)
						}
					}
					for i := 0; i < nsplits; i++ {
						time.Sleep(time.Second)
						files := map[string][]byte{}
						for f := 0; f < filesPerSplit; f++ {
							name := fmt.Sprintf("s%d/f%d", i, f)
							files[name] = []byte("content of " + name)
							want[name] = true
						}
						if err := splitAdd(st, "r", dd.DiamondID, fmt.Sprintf("s%d", i), files); err != nil {
							panic(err)
						}
					}
					core.VerifIndexEntriesPerFile = 0
					time.Sleep(time.Second)
					diamond, err := core.GetDiamond("r", dd.DiamondID, st, core.DiamondLogger(nopLogger))
					if err != nil {
						panic(err)
					}
					d := core.NewDiamond("r", st, core.DiamondDescriptor(model.NewDiamondDescriptor(model.DiamondClone(diamond), model.DiamondMode(model.EnableConflicts))),
						core.DiamondMessage("commit"), core.DiamondLogger(nopLogger))
					d.BundleDescriptor.LeafSize = c11L
					desc := fmt.Sprintf("%d splits x %d files (empty split first: %v), commit with page size %d", nsplits, filesPerSplit, emptyFirst, page)
					rp := map[string]interface{}{"splits": nsplits, "files_per_split": filesPerSplit, "page_size": page}
					rep.Eval(1)
					n++
					if err := d.Commit(core.BatchSize(page)); err != nil {
						rep.Violate(prop+"|pages|commit-fails", desc+": "+err.Error(), rp)
						return
					}
					ents, err := bundleEntries(st, "r", d.BundleID)
					if err != nil {
						rep.Violate(prop+"|pages|bundle-unreadable", desc+": "+err.Error(), rp)
						return
					}
					for name := range want {
						if _, ok := ents[name]; !ok {
							rep.Violate(prop+"|pages|file-of-a-completed-split-missing", fmt.Sprintf("%s: %q is missing from the bundle, which lists %d of %d files", desc, name, len(ents), len(want)), rp)
							return
						}
					}
					if len(ents) != len(want) {
						rep.Violate(prop+"|pages|extra-entries", fmt.Sprintf("%s: bundle lists %d entries, %d files were uploaded", desc, len(ents), len(want)), rp)
					}
				})
			}
		}
	}
	rep.Set("commits_with_small_pages", n)
}

// c11timing: two splits of one diamond upload CONCURRENTLY, with an overlapping path; every blob / vmetadata call is a
// scheduling point and the fake clock advances one second after each of them, so every store call has its own second.
// Oracle: (1) the upload time recorded for a file is not earlier than the write of the file's root blob and not later
// than the write of the split's completion record; (2) after the commit, the overlapping path holds the content of the
// split that recorded the later upload time, the other one is kept as a conflict.
func c11timing(t *testing.T, rep *lib.Report) {
	filesA := map[string][]byte{"a1": []byte("only in A, first"), "p": []byte("content of p uploaded by split A"), "a2": []byte("only in A, second")}
	filesB := map[string][]byte{"p": []byte("content of p uploaded by split B (different)"), "b1": []byte("only in B")}
	gates := map[string]func(string, string) bool{"blob": allCalls, "vmeta": allCalls}
	sc := &lib.Scenario{Name: "splitA||splitB;commit"}
	sc.Setup = func(x *lib.Exec) {
		w := NewWorld()
		x.Data["w"] = w
		st := w.Stores()
		if err := mkRepo(st, "r"); err != nil {
			panic(err)
		}
		dd, err := core.CreateDiamond("r", st, core.DiamondLogger(nopLogger))
		if err != nil {
			panic(err)
		}
		x.Data["diamond"] = dd.DiamondID
		x.Data["writes"] = map[string]time.Time{}
		time.Sleep(time.Second)
	}
	sc.AfterGrant = func(x *lib.Exec, c *lib.Call, d lib.Decision) {
		if c.Write && d == lib.Proceed {
			x.Data["writes"].(map[string]time.Time)[fmt.Sprintf("c%d:%s:%s", c.Client, c.Store, c.Key)] = time.Now()
		}
		time.Sleep(time.Second)
	}
	mk := func(sid string, files map[string][]byte) lib.ClientFn {
		return func(x *lib.Exec, id int) error {
			w := x.Data["w"].(*World)
			core.VerifIndexEntriesPerFile = 1 // read when the split's file index is created
			return splitAdd(w.Gated(x, id, gates), "r", x.Data["diamond"].(string), sid, files)
		}
	}
	sc.Phases = [][]lib.ClientFn{{mk("sA", filesA), mk("sB", filesB)}, {func(x *lib.Exec, id int) error {
		w := x.Data["w"].(*World)
		time.Sleep(time.Second)
		core.VerifIndexEntriesPerFile = 0 // the commit writes the bundle with the public default
		bid, err := diamondCommit(w.Stores(), "r", x.Data["diamond"].(string), model.EnableConflicts)
		x.Data["bundle"] = bid
		return err
	}}}
	sc.Final = func(x *lib.Exec) {
		w := x.Data["w"].(*World)
		if x.Hung {
			x.Violate("C11|timing|hang", "never returned")
			return
		}
		for i := 0; i < 3; i++ {
			if x.ClientErr[i] != nil {
				x.Violate("C11|timing|operation-failed", fmt.Sprintf("client %d: %v", i, x.ClientErr[i]))
				return
			}
		}
		writes := x.Data["writes"].(map[string]time.Time)
		dID := x.Data["diamond"].(string)
		stamp := map[string]time.Time{} // split -> upload time recorded for p
		for ci, sid := range []string{"sA", "sB"} {
			sd, err := core.GetSplit("r", dID, sid, w.Stores())
			if err != nil || sd.State != model.SplitDone {
				x.Violate("C11|timing|split-not-done", fmt.Sprintf("%s: %v", sid, err))
				return
			}
			var doneAt time.Time
			for k, tm := range writes {
				if strings.HasPrefix(k, fmt.Sprintf("c%d:vmeta:", ci)) && strings.HasSuffix(k, "/split-done.yaml") {
					doneAt = tm
				}
			}
			for i := uint64(0); i < sd.SplitEntriesFileCount; i++ {
				b, ok := w.VMeta.RawGet(model.GetArchivePathToSplitFileList("r", dID, sid, sd.GenerationID, i))
				if !ok {
					x.Violate("C11|timing|split-index-file-missing", sid)
					return
				}
				var ents model.BundleEntries
				if err := yaml.Unmarshal(b, &ents); err != nil {
					x.Violate("C11|timing|split-index-file-unreadable", err.Error())
					return
				}
				for _, e := range ents.BundleEntries {
					if e.NameWithPath == "p" {
						stamp[sid] = e.Timestamp
					}
					var wrote time.Time
					for k, tm := range writes {
						if strings.HasPrefix(k, fmt.Sprintf("c%d:blob:", ci)) && strings.Contains(k, e.Hash) {
							wrote = tm
						}
					}
					if !wrote.IsZero() && e.Timestamp.Before(wrote.Truncate(time.Second)) {
						x.Violate("C11|timing|upload-time-precedes-the-upload", fmt.Sprintf("split %s file %q: recorded upload time %s, its root blob was written at %s", sid, e.NameWithPath, e.Timestamp.UTC().Format("15:04:05"), wrote.UTC().Format("15:04:05")))
					}
					if !doneAt.IsZero() && e.Timestamp.After(doneAt.Add(time.Second)) {
						x.Violate("C11|timing|upload-time-after-split-completion", fmt.Sprintf("split %s file %q: recorded upload time %s, split completed at %s", sid, e.NameWithPath, e.Timestamp.UTC().Format("15:04:05"), doneAt.UTC().Format("15:04:05")))
					}
				}
			}
		}
		ents, err := bundleEntries(w.Stores(), "r", x.Data["bundle"].(string))
		if err != nil {
			x.Violate("C11|timing|bundle-unreadable", err.Error())
			return
		}
		out := "tie"
		if !stamp["sA"].Equal(stamp["sB"]) {
			winner, loser, wf := "sA", "sB", filesA
			if stamp["sB"].After(stamp["sA"]) {
				winner, loser, wf = "sB", "sA", filesB
			}
			out = "winner=" + winner
			dest := lib.NewMemStore("dest")
			dest.NoCRC, dest.NoJournal = true, true
			if _, derr := downloadBundle(w.Stores(), "r", x.Data["bundle"].(string), dest, 0); derr != nil {
				x.Violate("C11|timing|bundle-not-downloadable", derr.Error())
				return
			}
			snap := dest.Snapshot()
			if !bytes.Equal(snap["p"], wf["p"]) {
				x.Violate("C11|timing|older-upload-wins", fmt.Sprintf("p was uploaded by sA at %s and by sB at %s; the bundle holds %q", stamp["sA"].UTC().Format("15:04:05"), stamp["sB"].UTC().Format("15:04:05"), snap["p"]))
			}
			if _, ok := ents[".conflicts/"+loser+"/p"]; !ok {
				x.Violate("C11|timing|losing-version-not-kept", fmt.Sprintf("no .conflicts/%s/p entry; entries %v", loser, ents))
			}
		}
		// nothing uploaded by a completed split may be missing from the bundle
		for _, name := range []string{"a1", "a2", "b1", "p"} {
			if _, ok := ents[name]; !ok {
				x.Violate("C11|timing|file-of-a-completed-split-missing", fmt.Sprintf("%q was uploaded by a split that completed, the committed bundle lists %v", name, ents))
			}
		}
		x.SetOutcome(out)
	}
	pb := 1
	if lib.Thorough() {
		pb = 2
	}
	// one entry per split index file (verif hook): the index packer is inside a store call after every file, which is
	// where its hand-shake with the upload workers can go wrong
	defer func() { core.VerifIndexEntriesPerFile = 0 }()
	e := &lib.Explorer{Sc: sc, PreemptBound: pb, MaxExecs: 100000, Budget: 10 * time.Minute}
	e.Explore(t, rep)
	rep.Set("executions:"+sc.Name, e.Execs)
	rep.Set("timing_preemption_bound", pb)
}

// c11orderShape classifies how the committed entry sets of different arrival orders differ: in the main tree, or only
// in the conflict/checkpoint entries (and then whether the unstable entries duplicate the winning content or a losing one).
func c11orderShape(outcomes []string) []string {
	parse := func(o string) map[string]string {
		m := map[string]string{}
		for _, kv := range strings.Split(o, ";") {
			if i := strings.LastIndex(kv, "="); i > 0 {
				m[kv[:i]] = kv[i+1:]
			}
		}
		return m
	}
	var sets []map[string]string
	for _, o := range outcomes {
		if o == "refused" || o == "" {
			return []string{"commit-outcome-differs"}
		}
		sets = append(sets, parse(o))
	}
	isSide := func(n string) bool {
		return strings.HasPrefix(n, ".conflicts/") || strings.HasPrefix(n, ".checkpoints/")
	}
	kinds := map[string]bool{}
	for _, a := range sets {
		for n, h := range a {
			stable := true
			for _, b := range sets {
				if b[n] != h {
					stable = false
				}
			}
			if stable {
				continue
			}
			if !isSide(n) {
				return []string{"main-tree-differs"}
			}
			parts := strings.SplitN(n, "/", 3)
			if len(parts) == 3 && a[parts[2]] == h {
				kinds["unstable-entry-identical-to-winner"] = true
			} else {
				kinds["unstable-entry-duplicates-a-losing-version"] = true
			}
		}
	}
	var ks []string
	for k := range kinds {
		ks = append(ks, k)
	}
	sort.Strings(ks)
	for i := range ks {
		ks[i] = "conflict-entries-only|" + ks[i]
	}
	return ks
}
