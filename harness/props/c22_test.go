package props

import (
	"fmt"
	"testing"

	"github.com/oneconcern/datamon/pkg/filetracker"
	"verif/harness/lib"
)

// C22 — the write-range tracker records exactly the written ranges.
// E2: BFS over all write histories, de-duplicated on the implementation's marker dump (+ model bitmap), to a fixed
// point; in every state every (offset, len) query is compared with the bitmap model.

type c22op struct{ Off, Len int64 }

func c22build(h []c22op) (*filetracker.TFile, []bool) {
	tf := filetracker.VerifNew()
	bm := make([]bool, 64)
	for _, o := range h {
		tf.VerifTrackWrite(o.Off, o.Len)
		for i := o.Off; i < o.Off+o.Len; i++ {
			bm[i] = true
		}
	}
	return tf, bm
}

func c22canon(tf *filetracker.TFile, bm []bool) string {
	s := ""
	for _, m := range tf.VerifMarkers() {
		if m.Start {
			s += fmt.Sprintf("S%d,", m.Offset)
		} else {
			s += fmt.Sprintf("E%d,", m.Offset)
		}
	}
	s += "|"
	for _, b := range bm[:20] {
		if b {
			s += "1"
		} else {
			s += "0"
		}
	}
	return s
}

func TestC22(t *testing.T) {
	rep := lib.NewReport("C22", "model_checking")
	defer rep.Finish(t)
	maxOff, maxLen := int64(9), int64(10)
	if !lib.Thorough() {
		maxOff, maxLen = 6, 7
	}
	qMax := maxOff + maxLen + 2
	rep.Rule = fmt.Sprintf("BFS over histories of trackWrite(off in 0..%d, len in 0..%d) on the real TFile, de-duplicated on (marker dump, model bitmap) to the fixed point; in every state getRangeToRead(o,l) for all o in 0..%d, l in 1..%d is compared with the bitmap; plus the same search to the fixed point over writes [b_i,b_j) between 14 boundaries straddling the byte boundaries of the 8-byte marker keys (256, 512, 65536, 2^32, 2^40) and beyond the exact range of float64 (2^53+3, 2^62+1), queried at, below and inside every segment; distinct = distinct (markers,bitmap) states", maxOff, maxLen, qMax, qMax)
	var alphabet []c22op
	// zero-length writes cover no offset; they are part of the alphabet but violations that need one are labelled
	for l := int64(0); l <= maxLen; l++ {
		for o := int64(0); o <= maxOff; o++ {
			alphabet = append(alphabet, c22op{o, l})
		}
	}
	check := func(h []c22op) {
		tf, bm := c22build(h)
		zl := ""
		for _, o := range h {
			if o.Len == 0 {
				zl = "|needs-zero-length-write"
			}
		}
		for o := int64(0); o <= qMax; o++ {
			for l := int64(1); l <= qMax; l++ {
				rng, mutable := tf.VerifRange(o, l)
				rep.Eval(1)
				if mutable != bm[o] {
					rep.Violate(fmt.Sprintf("C22|class|want-mutable=%v%s", bm[o], zl),
						fmt.Sprintf("after writes %v: offset %d reported mutable=%v, model says %v (markers %v)", h, o, mutable, bm[o], tf.VerifMarkers()), h)
					continue
				}
				if rng > l {
					rep.Violate("C22|range-exceeds-request"+zl, fmt.Sprintf("after writes %v: range(%d,%d)=%d", h, o, l, rng), h)
					continue
				}
				for i := o; i < o+rng; i++ {
					if bm[i] != bm[o] {
						rep.Violate(fmt.Sprintf("C22|range-crosses-boundary|from-mutable=%v%s", bm[o], zl),
							fmt.Sprintf("after writes %v: range(%d,%d)=%d crosses a boundary at %d (markers %v)", h, o, l, rng, i, tf.VerifMarkers()), h)
						break
					}
				}
				if rng < 1 {
					rep.Add("ranges_below_1_noted", 1)
				}
			}
		}
	}
	res := lib.BFS(lib.BFSConfig[c22op]{
		Alphabet: func(h []c22op) []c22op { return alphabet },
		Canon: func(h []c22op) string {
			tf, bm := c22build(h)
			return c22canon(tf, bm)
		},
		Visit:     check,
		MaxDepth:  0,
		MaxStates: 2_000_000,
	})
	rep.AddStates(int64(res.States), int64(res.Transitions), int64(res.Transitions))
	for k := range res.Keys {
		rep.Outcome(k)
	}
	rep.Set("max_depth_reached", res.Depth)
	rep.Set("fixed_point", res.FixedPoint)
	if !res.FixedPoint {
		rep.NotExhaustive("state cap hit before the fixed point")
	}
	rep.Sample(map[string]interface{}{"history": res.Deepest, "canon": res.DeepestKey})
	c22wide(rep)
}

// c22wide: the same search over offsets taken from a set of boundaries that straddle the byte boundaries of the
// tracker's 8-byte big-endian marker keys (255/256, 65535/65536, 2^32, 2^40): writes [b_i, b_j) for every i<j; the model is a
// bitmap over the segments between consecutive boundaries; queries start at every boundary, one below it and inside
// every segment, with lengths reaching every later boundary.
func c22wide(rep *lib.Report) {
	B := []int64{0, 200, 256, 300, 511, 512, 600, 65536, 70000, 1 << 32, 1<<32 + 7, 1 << 40, 1<<53 + 3, 1<<62 + 1} // the last two are not exact in float64
	nseg := len(B) - 1
	segOf := func(o int64) int {
		for i := nseg - 1; i >= 0; i-- {
			if o >= B[i] {
				return i
			}
		}
		return 0
	}
	type wop struct{ I, J int }
	var alphabet []wop
	for i := 0; i < len(B); i++ {
		for j := i + 1; j < len(B); j++ {
			alphabet = append(alphabet, wop{i, j})
		}
	}
	build := func(h []wop) (*filetracker.TFile, []bool) {
		tf := filetracker.VerifNew()
		bm := make([]bool, nseg)
		for _, o := range h {
			tf.VerifTrackWrite(B[o.I], B[o.J]-B[o.I])
			for k := o.I; k < o.J; k++ {
				bm[k] = true
			}
		}
		return tf, bm
	}
	var queries []int64
	for i := 0; i < nseg; i++ {
		queries = append(queries, B[i], B[i]+1, (B[i]+B[i+1])/2, B[i+1]-1)
	}
	hist := func(h []wop) string {
		s := ""
		for _, o := range h {
			s += fmt.Sprintf("[%d,%d) ", B[o.I], B[o.J])
		}
		return s
	}
	res := lib.BFS(lib.BFSConfig[wop]{
		Alphabet: func(h []wop) []wop { return alphabet },
		Canon: func(h []wop) string {
			tf, bm := build(h)
			s := ""
			for _, m := range tf.VerifMarkers() {
				if m.Start {
					s += fmt.Sprintf("S%d,", m.Offset)
				} else {
					s += fmt.Sprintf("E%d,", m.Offset)
				}
			}
			return s + fmt.Sprint(bm)
		},
		Visit: func(h []wop) {
			tf, bm := build(h)
			for _, o := range queries {
				so := segOf(o)
				// end of the maximal run of segments classified like o's
				runEnd := so
				for runEnd+1 < nseg && bm[runEnd+1] == bm[so] {
					runEnd++
				}
				for j := so + 1; j < len(B); j++ {
					l := B[j] - o
					rng, mutable := tf.VerifRange(o, l)
					rep.Eval(1)
					if mutable != bm[so] {
						rep.Violate(fmt.Sprintf("C22|wide|class|want-mutable=%v", bm[so]), fmt.Sprintf("after writes %s: offset %d reported mutable=%v, model says %v (markers %v)", hist(h), o, mutable, bm[so], tf.VerifMarkers()), hist(h))
						break
					}
					if rng > l {
						rep.Violate("C22|wide|range-exceeds-request", fmt.Sprintf("after writes %s: range(%d,%d)=%d", hist(h), o, l, rng), hist(h))
						break
					}
					if o+rng > B[runEnd+1] {
						rep.Violate(fmt.Sprintf("C22|wide|range-crosses-boundary|from-mutable=%v", bm[so]), fmt.Sprintf("after writes %s: range(%d,%d)=%d crosses the boundary at %d (markers %v)", hist(h), o, l, rng, B[runEnd+1], tf.VerifMarkers()), hist(h))
						break
					}
				}
			}
		},
		MaxDepth:  0,
		MaxStates: 500000,
		Workers:   16,
	})
	rep.AddStates(int64(res.States), int64(res.Transitions), int64(res.Transitions))
	rep.Set("wide_states", res.States)
	rep.Set("wide_fixed_point", res.FixedPoint)
	if !res.FixedPoint {
		rep.NotExhaustive("wide search: state cap hit before the fixed point")
	}
}
