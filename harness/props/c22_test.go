package props

import (
	"fmt"
	"testing"

	"github.com/oneconcern/datamon/pkg/filetracker"
	"verif/harness/lib"
)

// C22 — the write-range tracker records exactly the written ranges.
// E2: BFS over all write histories, de-duplicated on the implementation's marker dump (+ model bitmap), to a fixed
// point; in every state every (offset, len) query is compared with the bitmap model.

type c22op struct{ Off, Len int64 }

func c22build(h []c22op) (*filetracker.TFile, []bool) {
	tf := filetracker.VerifNew()
	bm := make([]bool, 64)
	for _, o := range h {
		tf.VerifTrackWrite(o.Off, o.Len)
		for i := o.Off; i < o.Off+o.Len; i++ {
			bm[i] = true
		}
	}
	return tf, bm
}

func c22canon(tf *filetracker.TFile, bm []bool) string {
	s := ""
	for _, m := range tf.VerifMarkers() {
		if m.Start {
			s += fmt.Sprintf("S%d,", m.Offset)
		} else {
			s += fmt.Sprintf("E%d,", m.Offset)
		}
	}
	s += "|"
	for _, b := range bm[:20] {
		if b {
			s += "1"
		} else {
			s += "0"
		}
	}
	return s
}

func TestC22(t *testing.T) {
	rep := lib.NewReport("C22", "model_checking")
	defer rep.Finish(t)
	maxOff, maxLen := int64(9), int64(10)
	if !lib.Thorough() {
		maxOff, maxLen = 6, 7
	}
	qMax := maxOff + maxLen + 2
	rep.Rule = fmt.Sprintf("BFS over histories of trackWrite(off in 0..%d, len in 0..%d) on the real TFile, de-duplicated on (marker dump, model bitmap) to the fixed point; in every state getRangeToRead(o,l) for all o in 0..%d, l in 1..%d is compared with the bitmap; distinct = distinct (markers,bitmap) states", maxOff, maxLen, qMax, qMax)
	var alphabet []c22op
	// zero-length writes cover no offset; they are part of the alphabet but violations that need one are labelled
	for l := int64(0); l <= maxLen; l++ {
		for o := int64(0); o <= maxOff; o++ {
			alphabet = append(alphabet, c22op{o, l})
		}
	}
	check := func(h []c22op) {
		tf, bm := c22build(h)
		zl := ""
		for _, o := range h {
			if o.Len == 0 {
				zl = "|needs-zero-length-write"
			}
		}
		for o := int64(0); o <= qMax; o++ {
			for l := int64(1); l <= qMax; l++ {
				rng, mutable := tf.VerifRange(o, l)
				rep.Eval(1)
				if mutable != bm[o] {
					rep.Violate(fmt.Sprintf("C22|class|want-mutable=%v%s", bm[o], zl),
						fmt.Sprintf("after writes %v: offset %d reported mutable=%v, model says %v (markers %v)", h, o, mutable, bm[o], tf.VerifMarkers()), h)
					continue
				}
				if rng > l {
					rep.Violate("C22|range-exceeds-request"+zl, fmt.Sprintf("after writes %v: range(%d,%d)=%d", h, o, l, rng), h)
					continue
				}
				for i := o; i < o+rng; i++ {
					if bm[i] != bm[o] {
						rep.Violate(fmt.Sprintf("C22|range-crosses-boundary|from-mutable=%v%s", bm[o], zl),
							fmt.Sprintf("after writes %v: range(%d,%d)=%d crosses a boundary at %d (markers %v)", h, o, l, rng, i, tf.VerifMarkers()), h)
						break
					}
				}
				if rng < 1 {
					rep.Add("ranges_below_1_noted", 1)
				}
			}
		}
	}
	res := lib.BFS(lib.BFSConfig[c22op]{
		Alphabet: func(h []c22op) []c22op { return alphabet },
		Canon: func(h []c22op) string {
			tf, bm := c22build(h)
			return c22canon(tf, bm)
		},
		Visit:     check,
		MaxDepth:  0,
		MaxStates: 2_000_000,
	})
	rep.AddStates(int64(res.States), int64(res.Transitions), int64(res.Transitions))
	for k := range res.Keys {
		rep.Outcome(k)
	}
	rep.Set("max_depth_reached", res.Depth)
	rep.Set("fixed_point", res.FixedPoint)
	if !res.FixedPoint {
		rep.NotExhaustive("state cap hit before the fixed point")
	}
	rep.Sample(map[string]interface{}{"history": res.Deepest, "canon": res.DeepestKey})
}
