package props

import (
	"context"
	"fmt"
	"sort"
	"strings"
	"testing"

	"github.com/oneconcern/datamon/pkg/core"
	mdl "github.com/oneconcern/datamon/pkg/model"
	"verif/harness/lib"
)

// C08 — labels resolve to the bundle most recently assigned to them.
// E2: BFS over all set/delete histories to the fixed point of the label map (2 repos x 3 labels x {absent,B1,B2}),
// observer battery in every state; plus name acceptance over every short string of a hostile alphabet.

type c08op struct {
	Kind  string // set | delete
	Repo  string
	Label string
	B     int
}

var (
	c08repos  = []string{"a", "ab"}
	c08labels = []string{"x", "x-y", "v1.0.0"}
)

type c08base struct {
	w   *World
	ids map[string][]string // repo -> bundle ids
}

func c08mkbase() *c08base {
	w := NewWorld()
	st := w.Stores()
	b := &c08base{w: w, ids: map[string][]string{}}
	for _, r := range c08repos {
		if err := mkRepo(st, r); err != nil {
			panic(err)
		}
		for i := 0; i < 2; i++ {
			bd, err := uploadFiles(st, r, map[string][]byte{fmt.Sprintf("f%d", i): []byte(r)}, c11L, 0)
			if err != nil {
				panic(err)
			}
			b.ids[r] = append(b.ids[r], bd.BundleID)
		}
	}
	return b
}

func (b *c08base) fresh() *World {
	return &World{Meta: b.w.Meta.Clone(), VMeta: b.w.VMeta.Clone(), Blob: b.w.Blob, Wal: b.w.Wal, ReadLog: b.w.ReadLog}
}

func c08apply(base *c08base, w *World, model map[string]int, op c08op) (err error, journal []lib.JournalEntry) {
	st := w.Stores()
	j := w.VMeta.JournalLen()
	switch op.Kind {
	case "set":
		err = setLabel(st, op.Repo, op.Label, base.ids[op.Repo][op.B-1])
		if err == nil {
			model[op.Repo+"|"+op.Label] = op.B
		}
	case "move":
		// the other way the API is used to (re)assign a label: fetch its descriptor into a Label object, then upload that
		// object for the new bundle (a label that does not exist yet is simply created)
		l := core.NewLabel(core.LabelDescriptor(mdl.NewLabelDescriptor(mdl.LabelName(op.Label), mdl.LabelContributor(mdl.Contributor{Name: "v", Email: "v@x.io"}))))
		_ = l.DownloadDescriptor(context.Background(), core.NewBundle(core.Repo(op.Repo), core.ContextStores(st), core.Logger(nopLogger)), true)
		err = l.UploadDescriptor(context.Background(), core.NewBundle(core.Repo(op.Repo), core.ContextStores(st), core.BundleID(base.ids[op.Repo][op.B-1]), core.Logger(nopLogger)))
		if err == nil {
			model[op.Repo+"|"+op.Label] = op.B
		}
	case "delete":
		err = core.DeleteLabel(op.Repo, st, op.Label)
		if err == nil {
			delete(model, op.Repo+"|"+op.Label)
		}
	}
	return err, w.VMeta.JournalSince(j)
}

// c08impl dumps what the label store really holds (label key -> bundle, as B1/B2 of its repository): it is part of the
// state key, so an implementation state that differs from the model is a state of its own and gets the full battery.
func c08impl(base *c08base, w *World) string {
	var parts []string
	for _, k := range w.VMeta.RawKeys() {
		if !strings.HasPrefix(k, "labels/") {
			continue
		}
		b, _ := w.VMeta.RawGet(k)
		id := "?"
		for _, line := range strings.Split(string(b), "\n") {
			if strings.HasPrefix(line, "id:") {
				id = strings.TrimSpace(strings.TrimPrefix(line, "id:"))
			}
		}
		for r, ids := range base.ids {
			for i, bid := range ids {
				if bid == id {
					id = fmt.Sprintf("%s.B%d", r, i+1)
				}
			}
		}
		parts = append(parts, k+"->"+id)
	}
	sort.Strings(parts)
	return strings.Join(parts, ",")
}

func c08canon(model map[string]int) string {
	var ks []string
	for k, v := range model {
		ks = append(ks, fmt.Sprintf("%s=B%d", k, v))
	}
	sort.Strings(ks)
	return strings.Join(ks, ";")
}

func c08observe(rep *lib.Report, base *c08base, w *World, model map[string]int, h []c08op) {
	st := w.Stores()
	desc := fmt.Sprintf("after %v (model %s)", h, c08canon(model))
	for _, r := range c08repos {
		for _, l := range c08labels {
			got, err := getLabel(st, r, l)
			rep.Eval(1)
			want, exists := model[r+"|"+l]
			switch {
			case exists && (err != nil || got != base.ids[r][want-1]):
				rep.Violate("C08|get-wrong-bundle", fmt.Sprintf("%s: label %s/%s resolves to %q (%v), last set to B%d=%s", desc, r, l, got, err, want, base.ids[r][want-1]), h)
			case !exists && err == nil:
				rep.Violate("C08|get-deleted-or-unset-label-succeeds", fmt.Sprintf("%s: label %s/%s resolves to %q", desc, r, l, got), h)
			}
		}
		for _, pfx := range []string{"", "x", "v", ".", ".."} {
			var want []string
			for _, l := range c08labels {
				if b, ok := model[r+"|"+l]; ok && strings.HasPrefix(l, pfx) {
					want = append(want, l+"="+base.ids[r][b-1])
				}
			}
			sort.Strings(want)
			for page := 1; page <= 4; page++ {
				ls, err := core.ListLabels(r, st, core.BatchSize(page), core.WithLabelPrefix(pfx))
				rep.Eval(1)
				var got []string
				for _, l := range ls {
					got = append(got, l.Name+"="+l.BundleID)
				}
				sort.Strings(got)
				if err != nil || strings.Join(got, ",") != strings.Join(want, ",") {
					rep.Violate("C08|list-differs-from-live-labels", fmt.Sprintf("%s: ListLabels(%s, prefix %q, page %d)=%v (%v), live labels %v", desc, r, pfx, page, got, err, want), h)
				}
			}
		}
	}
}

func TestC08(t *testing.T) {
	rep := lib.NewReport("C08", "model_checking")
	defer rep.Finish(t)
	rep.Rule = "BFS over all histories of set(r,l,b) with a fresh Label object / move(r,l,B2) with a Label object that fetched the current descriptor first / delete(r,l), r in {a,ab}, l in {x,x-y,v1.0.0}, b in {B1,B2}, de-duplicated on (label map of the model, labels really in the store), to the fixed point (3^6 states); each state rebuilt on a fresh clone of the real stores; after every step: get of every (r,l), ListLabels with prefixes {'',x,v,'.','..'} x page sizes 1..4, and the write journal (exactly one key written, under labels/<r>/<l>/; bundles and other labels untouched); name acceptance: every string of length <=2 over {a,7,-,_,.,/,space,é,#} + hostile names: if the API accepts the name, get must resolve it and listing must return it together with the other labels; label listings (page size 2, with and without prefix) under every single transient fault at each metadata call: an error or exactly the live labels; distinct = distinct label maps / names"
	base := c08mkbase()
	var alphabet []c08op
	for _, r := range c08repos {
		for _, l := range c08labels {
			for b := 1; b <= 2; b++ {
				alphabet = append(alphabet, c08op{"set", r, l, b})
			}
			alphabet = append(alphabet, c08op{"move", r, l, 2})
			alphabet = append(alphabet, c08op{"delete", r, l, 0})
		}
	}
	build := func(h []c08op, check bool) (*World, map[string]int, bool) {
		w := base.fresh()
		model := map[string]int{}
		for i, op := range h {
			_, exists := model[op.Repo+"|"+op.Label]
			err, journal := c08apply(base, w, model, op)
			if !check || i != len(h)-1 {
				if err != nil && !(op.Kind == "delete" && !exists) {
					return w, model, false
				}
				continue
			}
			// the last step is the transition under test
			if op.Kind == "delete" && !exists {
				if err == nil && len(journal) > 0 {
					rep.Violate("C08|delete-of-absent-label-wrote", fmt.Sprintf("history %v: %v", h, journal), h)
				}
				continue
			}
			if err != nil {
				rep.Violate("C08|"+op.Kind+"-error", fmt.Sprintf("history %v: %v", h, err), h)
				return w, model, false
			}
			wantKey := "labels/" + op.Repo + "/" + op.Label + "/label.yaml"
			if len(journal) != 1 || journal[0].Key != wantKey {
				rep.Violate("C08|"+op.Kind+"-touches-other-keys", fmt.Sprintf("history %v: writes %v, expected exactly one write to %s", h, journal, wantKey), h)
			}
			if w.Meta.Digest() != base.w.Meta.Digest() {
				rep.Violate("C08|label-op-changed-bundle-metadata", fmt.Sprintf("history %v", h), h)
			}
		}
		return w, model, true
	}
	res := lib.BFS(lib.BFSConfig[c08op]{
		Alphabet: func(h []c08op) []c08op { return alphabet },
		Canon: func(h []c08op) string {
			w, model, ok := build(h, false)
			if !ok {
				return ""
			}
			return "S:" + c08canon(model) + " || store: " + c08impl(base, w)
		},
		Visit: func(h []c08op) {
			w, model, ok := build(h, true)
			if ok {
				c08observe(rep, base, w, model, h)
			}
		},
		MaxStates: 5000,
	})
	// every transition (including those leading to an already seen state) is checked too
	rep.AddStates(int64(res.States), int64(res.Transitions), int64(res.Transitions))
	for k := range res.Keys {
		rep.Outcome(k)
	}
	rep.Set("fixed_point", res.FixedPoint)
	rep.Set("max_depth", res.Depth)
	rep.Sample(map[string]interface{}{"deepest_history": res.Deepest, "state": res.DeepestKey})

	// ---- name acceptance
	chars := []string{"a", "7", "-", "_", ".", "/", " ", "é", "#"}
	names := []string{"", "a/b", "../x", "label.yaml", "x/label.yaml", "x/../y"}
	for _, c := range chars {
		names = append(names, c)
		for _, d := range chars {
			names = append(names, c+d)
		}
	}
	for _, name := range names {
		w := base.fresh()
		st := w.Stores()
		_ = setLabel(st, "a", "other", base.ids["a"][0])
		class := "plain"
		switch {
		case name == "":
			class = "empty"
		case strings.Contains(name, "/"):
			class = "contains-slash"
		case strings.ContainsAny(name, ". #") || name != strings.TrimSpace(name):
			class = "punctuation"
		}
		var err error
		c20try(rep, "C08|name|set|"+class, fmt.Sprintf("%q", name), func() { err = setLabel(st, "a", name, base.ids["a"][1]) })
		rep.Eval(1)
		rep.Outcome("name|" + name)
		if err != nil {
			rep.Add("names_refused", 1)
			continue
		}
		c20try(rep, "C08|name|observe|"+class, fmt.Sprintf("%q", name), func() {
			got, gerr := getLabel(st, "a", name)
			if gerr != nil || got != base.ids["a"][1] {
				rep.Violate("C08|accepted-name-does-not-resolve|"+class, fmt.Sprintf("label %q was accepted but get returns %q (%v)", name, got, gerr), name)
			}
			for page := 1; page <= 3; page++ {
				ls, lerr := core.ListLabels("a", st, core.BatchSize(page))
				var got []string
				for _, l := range ls {
					got = append(got, l.Name)
				}
				sort.Strings(got)
				want := []string{name, "other"}
				sort.Strings(want)
				if lerr != nil || strings.Join(got, "|") != strings.Join(want, "|") {
					rep.Violate("C08|accepted-name-breaks-listing|"+class, fmt.Sprintf("label %q was accepted; ListLabels(page %d)=%q (%v), want %q", name, page, got, lerr, want), name)
					break
				}
			}
			if w.Meta.Digest() != base.w.Meta.Digest() {
				rep.Violate("C08|label-op-changed-bundle-metadata|"+class, fmt.Sprintf("label %q", name), name)
			}
		})
	}
	// ---- label listings under a transient store fault
	listingFaultSweep(t, rep, "C08", []string{"labels"})
}
