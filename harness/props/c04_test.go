package props

import (
	"bytes"
	"context"
	"fmt"
	"sort"
	"strings"
	"sync"
	"testing"

	"github.com/oneconcern/datamon/pkg/core"
	"github.com/oneconcern/datamon/pkg/model"
	"github.com/oneconcern/datamon/pkg/storage"
	"github.com/oneconcern/datamon/pkg/storage/localfs"
	"github.com/spf13/afero"
	"verif/harness/lib"
)

// C04 — bundle upload then download reproduces the uploaded tree (E2: exhaustive product over small trees).

var c04paths = []string{"-a", "b/c", "b/d e", "ü/x.y", "b/.datamon/z", ".datamon/x", ".conflicts/s/a", ".checkpoints/q"}

func c04generated(p string) bool {
	first := strings.SplitN(p, "/", 2)[0]
	return first == ".datamon" || first == ".conflicts" || first == ".checkpoints"
}

type c04variant struct{ size, class int }

func c04variants(L int) []c04variant {
	var v []c04variant
	for _, s := range []int{0, 1, L, L + 1, 3 * L} {
		for c := 1; c <= 2; c++ {
			v = append(v, c04variant{s, c})
		}
	}
	return v
}

func c04content(v c04variant, L int) []byte {
	if v.class == 1 {
		return pattern("pos", v.size, L)
	}
	return pattern("rep", v.size, L)
}

// refKey computes the content key with a plain cafs Put (keys themselves are decided by C02).
var refKeyCache sync.Map

func refKey(data []byte, L int) string {
	ck := fmt.Sprintf("%d|%x", L, data)
	if v, ok := refKeyCache.Load(ck); ok {
		return v.(string)
	}
	st := lib.NewMemStore("ref")
	st.NoJournal = true
	res, err := newFs(st, L, 1, 0, 4).Put(context.Background(), bytes.NewReader(data))
	if err != nil {
		panic(err)
	}
	refKeyCache.Store(ck, res.Key.String())
	return res.Key.String()
}

func storeFiles(s storage.Store) (map[string][]byte, error) {
	if ms, ok := s.(*lib.MemStore); ok {
		return ms.Snapshot(), nil
	}
	keys, err := s.Keys(context.Background())
	if err != nil {
		return nil, err
	}
	out := map[string][]byte{}
	for _, k := range keys {
		r, err := s.Get(context.Background(), k)
		if err != nil {
			return nil, err
		}
		var buf bytes.Buffer
		_, err = buf.ReadFrom(r)
		r.Close()
		if err != nil {
			return nil, err
		}
		out[strings.TrimPrefix(k, "/")] = buf.Bytes()
	}
	return out, nil
}

// c04compare checks that a consumable store holds exactly want (+ .datamon metadata).
func c04compare(rep *lib.Report, sig, desc string, dest storage.Store, want map[string][]byte, rp interface{}) {
	got, err := storeFiles(dest)
	if err != nil {
		rep.Violate(sig+"|dest-unreadable", desc+": "+err.Error(), rp)
		return
	}
	for name, data := range want {
		g, ok := got[name]
		if !ok {
			rep.Violate(sig+"|file-missing", fmt.Sprintf("%s: %q not downloaded; got %v", desc, name, keysOf(got)), rp)
		} else if !bytes.Equal(g, data) {
			rep.Violate(sig+"|file-differs", fmt.Sprintf("%s: %q differs (len %d vs %d, first diff %d)", desc, name, len(g), len(data), firstDiff(g, data)), rp)
		}
	}
	for name := range got {
		if _, ok := want[name]; !ok && !strings.HasPrefix(name, ".datamon/") {
			rep.Violate(sig+"|extra-file", fmt.Sprintf("%s: unexpected %q in destination", desc, name), rp)
		}
	}
}

func keysOf(m map[string][]byte) []string {
	var ks []string
	for k := range m {
		ks = append(ks, k)
	}
	sort.Strings(ks)
	return ks
}

type c04case struct {
	Paths   []string
	Offset  int
	L       int
	Conc    int
	EPF     uint
	LocalFS bool
}

func (c c04case) files() map[string][]byte {
	vs := c04variants(c.L)
	out := map[string][]byte{}
	for i, p := range c.Paths {
		out[p] = c04content(vs[(c.Offset+i*3)%len(vs)], c.L)
	}
	return out
}

func c04run(rep *lib.Report, c c04case) {
	files := c.files()
	want := map[string][]byte{}
	for p, d := range files {
		if !c04generated(p) {
			want[p] = d
		}
	}
	rp := map[string]interface{}{"paths": c.Paths, "offset": c.Offset, "L": c.L, "concurrency": c.Conc, "entries_per_index_file": c.EPF, "localfs": c.LocalFS}
	desc := fmt.Sprintf("%v", rp)
	w := NewWorld()
	w.Blob.NoJournal = true
	st := w.Stores()
	if err := mkRepo(st, "r"); err != nil {
		panic(err)
	}
	var src storage.Store = srcStore(files)
	if c.LocalFS {
		m := newSafeMemMapFs()
		_ = m.MkdirAll("/base", 0o755)
		src = localfs.New(afero.NewBasePathFs(m, "/base"), localfs.WithRetry(false), localfs.WithLogger(nopLogger))
		for p, d := range files {
			if err := src.Put(context.Background(), p, bytes.NewReader(d), storage.NoOverWrite); err != nil {
				panic(err)
			}
		}
	}
	guard(rep, "C04|upload-download", func() string { return desc }, rp, func() {
		b := core.NewBundle(core.Repo("r"), core.ContextStores(st), core.ConsumableStore(src), core.BundleDescriptor(newBundleDesc(c.L, "m")),
			core.Logger(nopLogger), core.ConcurrentFileUploads(c.Conc))
		var err error
		if c.EPF == 0 {
			err = core.Upload(context.Background(), b)
		} else {
			err = core.VerifUpload(context.Background(), b, c.EPF, nil)
		}
		rep.Eval(1)
		if err != nil {
			rep.Violate("C04|upload-error", desc+": "+err.Error(), rp)
			return
		}
		// entries
		eb := core.NewBundle(core.Repo("r"), core.ContextStores(st), core.BundleID(b.BundleID), core.Logger(nopLogger))
		if c.EPF == 0 {
			err = core.DownloadMetadata(context.Background(), eb)
		} else {
			err = core.VerifPublishMetadata(context.Background(), eb, false, c.EPF)
		}
		if err != nil {
			rep.Violate("C04|metadata-error", desc+": "+err.Error(), rp)
			return
		}
		seen := map[string]bool{}
		for _, e := range eb.BundleEntries {
			d, ok := want[e.NameWithPath]
			switch {
			case c04generated(e.NameWithPath):
				rep.Violate("C04|generated-path-uploaded", fmt.Sprintf("%s: entry %q", desc, e.NameWithPath), rp)
			case !ok:
				rep.Violate("C04|entry-for-unknown-file", fmt.Sprintf("%s: entry %q", desc, e.NameWithPath), rp)
			case seen[e.NameWithPath]:
				rep.Violate("C04|duplicate-entry", fmt.Sprintf("%s: entry %q listed twice", desc, e.NameWithPath), rp)
			default:
				if e.Size != uint64(len(d)) {
					rep.Violate("C04|entry-size", fmt.Sprintf("%s: %q size %d want %d", desc, e.NameWithPath, e.Size, len(d)), rp)
				}
				if e.Hash != refKey(d, c.L) {
					rep.Violate("C04|entry-key", fmt.Sprintf("%s: %q key %s want %s", desc, e.NameWithPath, e.Hash, refKey(d, c.L)), rp)
				}
			}
			seen[e.NameWithPath] = true
		}
		for p := range want {
			if !seen[p] {
				rep.Violate("C04|file-without-entry", fmt.Sprintf("%s: %q has no entry", desc, p), rp)
			}
		}
		// full download
		newDest := func() storage.Store {
			if c.LocalFS {
				m := newSafeMemMapFs()
				_ = m.MkdirAll("/base", 0o755)
				return localfs.New(afero.NewBasePathFs(m, "/base"), localfs.WithRetry(false), localfs.WithLogger(nopLogger))
			}
			d := lib.NewMemStore("dest")
			d.NoCRC = true
			return d
		}
		dest := newDest()
		if _, err := downloadBundle(st, "r", b.BundleID, dest, c.EPF, core.ConcurrentFileDownloads(c.Conc)); err != nil {
			rep.Violate("C04|download-error", desc+": "+err.Error(), rp)
			return
		}
		rep.Eval(1)
		c04compare(rep, "C04|download", desc, dest, want, rp)
		// filtered downloads: every subset
		var names []string
		for p := range want {
			names = append(names, p)
		}
		sort.Strings(names)
		if c.Conc == 1 || len(names) <= 2 {
			for mask := 0; mask < 1<<uint(len(names)); mask++ {
				sel := map[string][]byte{}
				for i, n := range names {
					if mask&(1<<uint(i)) != 0 {
						sel[n] = want[n]
					}
				}
				dest := newDest()
				fb := core.NewBundle(core.Repo("r"), core.ContextStores(st), core.ConsumableStore(dest), core.BundleID(b.BundleID), core.Logger(nopLogger))
				pred := func(s string) (bool, error) { _, ok := sel[s]; return ok, nil }
				var err error
				if c.EPF == 0 {
					err = core.PublishSelectBundleEntries(context.Background(), fb, pred)
				} else {
					err = core.VerifPublish(context.Background(), fb, c.EPF, pred)
				}
				rep.Eval(1)
				if err != nil {
					rep.Violate("C04|filtered-download-error", fmt.Sprintf("%s mask=%b: %v", desc, mask, err), rp)
					continue
				}
				c04compare(rep, "C04|filtered-download", fmt.Sprintf("%s selection %v", desc, keysOf(sel)), dest, sel, rp)
			}
		}
		// single-file downloads (public API uses the default entries per file)
		if c.EPF == 0 {
			for _, n := range append(names, "absent-file") {
				dest := newDest()
				fb := core.NewBundle(core.Repo("r"), core.ContextStores(st), core.ConsumableStore(dest), core.BundleID(b.BundleID), core.Logger(nopLogger))
				err := core.PublishFile(context.Background(), fb, n)
				rep.Eval(1)
				if n == "absent-file" {
					if err == nil {
						rep.Violate("C04|publish-absent-file-succeeds", desc, rp)
					}
					c04compare(rep, "C04|single-file-download", desc+" absent file", dest, map[string][]byte{}, rp)
					continue
				}
				if err != nil {
					rep.Violate("C04|single-file-download-error", fmt.Sprintf("%s file %q: %v", desc, n, err), rp)
					continue
				}
				c04compare(rep, "C04|single-file-download", fmt.Sprintf("%s file %q", desc, n), dest, map[string][]byte{n: want[n]}, rp)
			}
		}
	})
	rep.Outcome(fmt.Sprintf("%v|%d|%d", c.Paths, c.Offset, c.L))
}

func c04subsets(max int) [][]string {
	var out [][]string
	n := len(c04paths)
	for mask := 0; mask < 1<<uint(n); mask++ {
		var s []string
		for i := 0; i < n; i++ {
			if mask&(1<<uint(i)) != 0 {
				s = append(s, c04paths[i])
			}
		}
		if len(s) <= max {
			out = append(out, s)
		}
	}
	return out
}

// c04keylists: explicit key lists over {a, b, missing, a generated path} with and without skip-missing.
func c04keylists(rep *lib.Report) {
	L := 64
	// ".datamon/gen" is present in the source: a generated path is never uploaded, with or without skip-missing
	files := map[string][]byte{"a": pattern("pos", 70, L), "b": pattern("rep", 10, L), ".datamon/gen": []byte("left by an earlier download")}
	alphabet := []string{"a", "b", "missing", ".datamon/gen"}
	var lists [][]string
	var gen func(l []string)
	gen = func(l []string) {
		lists = append(lists, append([]string(nil), l...))
		if len(l) == 3 {
			return
		}
		for _, k := range alphabet {
			gen(append(l, k))
		}
	}
	gen(nil)
	for _, l := range lists {
		for _, skip := range []bool{false, true} {
			l, skip := l, skip
			rp := map[string]interface{}{"keys": l, "skip_missing": skip}
			desc := fmt.Sprint(rp)
			hasMissing, distinct := false, map[string]bool{}
			for _, k := range l {
				switch k {
				case "missing":
					hasMissing = true
				case ".datamon/gen":
				default:
					distinct[k] = true
				}
			}
			repeated := len(distinct) < len(l)-strings.Count(strings.Join(l, ","), "missing")-strings.Count(strings.Join(l, ","), ".datamon/gen")
			shape := fmt.Sprintf("missing=%v|repeated=%v|skip=%v", hasMissing, repeated, skip)
			w := NewWorld()
			st := w.Stores()
			_ = mkRepo(st, "r")
			guard(rep, "C04|keylist|"+shape, func() string { return desc }, rp, func() {
				b := core.NewBundle(core.Repo("r"), core.ContextStores(st), core.ConsumableStore(srcStore(files)), core.BundleDescriptor(newBundleDesc(L, "m")),
					core.Logger(nopLogger), core.SkipMissing(skip))
				done := make(chan error, 1)
				go func() {
					done <- core.UploadSpecificKeys(context.Background(), b, func() ([]string, error) { return l, nil })
				}()
				err := <-done
				rep.Eval(1)
				visible, _ := core.ListBundles("r", st)
				if hasMissing && !skip {
					if err == nil {
						rep.Violate("C04|keylist|missing-key-accepted|"+shape, desc+": upload succeeded", rp)
					}
					if len(visible) != 0 {
						rep.Violate("C04|keylist|failed-upload-left-visible-bundle|"+shape, fmt.Sprintf("%s: %d bundles visible", desc, len(visible)), rp)
					}
					return
				}
				if err != nil {
					rep.Violate("C04|keylist|upload-error|"+shape, desc+": "+err.Error(), rp)
					return
				}
				want := map[string][]byte{}
				for k := range distinct {
					want[k] = files[k]
				}
				ents, err := bundleEntries(st, "r", b.BundleID)
				if err != nil {
					rep.Violate("C04|keylist|entries-not-one-to-one|"+shape, desc+": "+err.Error(), rp)
				} else if len(ents) != len(want) {
					rep.Violate("C04|keylist|entries-differ|"+shape, fmt.Sprintf("%s: entries %v want %v", desc, ents, keysOf(want)), rp)
				}
				dest := lib.NewMemStore("dest")
				dest.NoCRC = true
				if _, err := downloadBundle(st, "r", b.BundleID, dest, 0); err != nil {
					rep.Violate("C04|keylist|download-error|"+shape, desc+": "+err.Error(), rp)
					return
				}
				c04compare(rep, "C04|keylist|download|"+shape, desc, dest, want, rp)
			})
			rep.Outcome("keylist|" + desc)
		}
	}
}

// c04boundary: index-file boundary through the public API with tiny files.
func c04boundary(rep *lib.Report, ns []int) {
	L := 64
	for _, n := range ns {
		files := map[string][]byte{}
		for i := 0; i < n; i++ {
			files[fmt.Sprintf("d%02d/f%04d", i%7, i)] = []byte(fmt.Sprintf("%d", i%5))
		}
		rp := map[string]interface{}{"files": n}
		w := NewWorld()
		w.Blob.NoJournal, w.Meta.NoJournal = true, true
		st := w.Stores()
		_ = mkRepo(st, "r")
		guard(rep, "C04|boundary", func() string { return fmt.Sprint(rp) }, rp, func() {
			b, err := uploadFiles(st, "r", files, L, 0)
			rep.Eval(1)
			if err != nil {
				rep.Violate("C04|boundary|upload-error", fmt.Sprintf("%d files: %v", n, err), rp)
				return
			}
			wantIdx := (n + 999) / 1000
			if int(b.BundleDescriptor.BundleEntriesFileCount) != wantIdx {
				rep.Violate("C04|boundary|index-file-count", fmt.Sprintf("%d files: %d index files, want %d", n, b.BundleDescriptor.BundleEntriesFileCount, wantIdx), rp)
			}
			dest := lib.NewMemStore("dest")
			dest.NoCRC, dest.NoJournal = true, true
			if _, err := downloadBundle(st, "r", b.BundleID, dest, 0); err != nil {
				rep.Violate("C04|boundary|download-error", fmt.Sprintf("%d files: %v", n, err), rp)
				return
			}
			c04compare(rep, "C04|boundary|download", fmt.Sprintf("%d files", n), dest, files, rp)
		})
		rep.Outcome(fmt.Sprintf("boundary|%d", n))
	}
}

func TestC04(t *testing.T) {
	rep := lib.NewReport("C04", "exploration")
	defer rep.Finish(t)
	maxSub := 3
	offsets := []int{0, 3, 7}
	Ls := []int{64}
	concs := []int{1, 20}
	if lib.Thorough() {
		maxSub, offsets, Ls, concs = 4, []int{0, 1, 2, 3, 4, 5, 6, 7, 8, 9}, []int{64, 4096}, []int{1, 2, 20}
	}
	rep.Rule = fmt.Sprintf("all subsets of <=%d paths of %v x %d size/content assignments (sizes {0,1,L,L+1,3L} x 2 content classes, rotated so that every file sees every variant and duplicates occur) x L in %v x concurrency %v x entries-per-index-file {2 (hook), 1000 (public API)} (+ localfs source/destination); per bundle: entries one-to-one with exact size and reference key, full download, EVERY subset predicate, PublishFile of every path and an absent one; all explicit key lists of length <=3 over {a, b, missing, a generated path present in the source} x skip-missing; index-file boundary sizes through the public API; distinct = distinct trees / key lists", maxSub, c04paths, len(offsets), Ls, concs)
	var cases []c04case
	for _, s := range c04subsets(maxSub) {
		for _, o := range offsets {
			for _, L := range Ls {
				for _, cc := range concs {
					for _, epf := range []uint{2, 0} {
						cases = append(cases, c04case{Paths: s, Offset: o, L: L, Conc: cc, EPF: epf})
					}
				}
				if lib.Thorough() || o == 0 {
					cases = append(cases, c04case{Paths: s, Offset: o, L: L, Conc: 2, EPF: 0, LocalFS: true})
				}
			}
		}
	}
	var wg sync.WaitGroup
	sem := make(chan struct{}, 16)
	for _, c := range cases {
		wg.Add(1)
		sem <- struct{}{}
		go func(c c04case) {
			defer wg.Done()
			defer func() { <-sem }()
			c04run(rep, c)
		}(c)
	}
	wg.Wait()
	rep.Set("tree_cases", len(cases))
	c04keylists(rep)
	if lib.Thorough() {
		c04boundary(rep, []int{0, 1, 999, 1000, 1001, 2000, 2001, 2500})
	} else {
		c04boundary(rep, []int{0, 1000, 1001})
	}
	rep.Sample(map[string]interface{}{"case": cases[len(cases)/2]})
	_ = model.IsGeneratedFile
}
