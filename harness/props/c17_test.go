package props

import (
	"bytes"
	"context"
	"encoding/binary"
	"fmt"
	"os"
	"sort"
	"strings"
	"sync"
	"sync/atomic"
	"testing"
	"time"

	jfuse "github.com/jacobsa/fuse"
	"github.com/jacobsa/fuse/fuseops"
	"github.com/jacobsa/fuse/fuseutil"
	"github.com/oneconcern/datamon/pkg/core"
	dfuse "github.com/oneconcern/datamon/pkg/fuse"
	"github.com/oneconcern/datamon/pkg/storage/localfs"
	"github.com/spf13/afero"
	"verif/harness/lib"
)

// C17 — a read-only mount shows exactly the bundle (E2: exhaustive observation battery per tree, both mount modes).

var c17paths = []string{"a", "d/b", "d/e/c", "d/e/f", "g/h", "d/i", "d/c-much-longer-file-name"} // a long name listed between short ones: directory entries of different sizes

type dirent struct {
	Inode  fuseops.InodeID
	Offset fuseops.DirOffset
	Name   string
	Type   fuseutil.DirentType
}

// parseDirents decodes the kernel dirent format written by fuseutil.WriteDirent.
func parseDirents(b []byte) ([]dirent, error) {
	var out []dirent
	for len(b) > 0 {
		if len(b) < 24 {
			return out, fmt.Errorf("truncated dirent header (%d bytes)", len(b))
		}
		ino := binary.LittleEndian.Uint64(b[0:8])
		off := binary.LittleEndian.Uint64(b[8:16])
		nl := binary.LittleEndian.Uint32(b[16:20])
		ty := binary.LittleEndian.Uint32(b[20:24])
		total := 24 + int(nl)
		if pad := total % 8; pad != 0 {
			total += 8 - pad
		}
		if total > len(b) {
			return out, fmt.Errorf("truncated dirent name")
		}
		out = append(out, dirent{Inode: fuseops.InodeID(ino), Offset: fuseops.DirOffset(off), Name: string(b[24 : 24+nl]), Type: fuseutil.DirentType(ty)})
		b = b[total:]
	}
	return out, nil
}

type c17node struct {
	dir      bool
	data     []byte
	children map[string]*c17node
}

func c17model(files map[string][]byte) *c17node {
	root := &c17node{dir: true, children: map[string]*c17node{}}
	for p, d := range files {
		cur := root
		parts := strings.Split(p, "/")
		for i, part := range parts {
			if i == len(parts)-1 {
				cur.children[part] = &c17node{data: d}
			} else {
				if cur.children[part] == nil {
					cur.children[part] = &c17node{dir: true, children: map[string]*c17node{}}
				}
				cur = cur.children[part]
			}
		}
	}
	return root
}

type c17case struct {
	Paths    []string
	SizeOff  int
	Streamed bool
	Prefetch int
	Verify   bool // hash verification of streamed reads (off by default in pkg/fuse, on by default in the CLI)
}

func c17run(rep *lib.Report, c c17case) {
	L := 64
	sizes := []int{3 * L, 0, L + 1, 1, L} // exact multiples of the leaf size come first: every tree has one
	files := map[string][]byte{}
	for i, p := range c.Paths {
		files[p] = pattern("pos", sizes[(i+c.SizeOff)%len(sizes)], L)
	}
	mode := "streamed"
	if !c.Streamed {
		mode = "pre-downloaded"
	}
	if c.Verify {
		mode += "+verify-hash"
	}
	rp := map[string]interface{}{"paths": c.Paths, "size_offset": c.SizeOff, "mode": mode, "prefetch": c.Prefetch}
	desc := fmt.Sprint(rp)
	w := NewWorld()
	w.Blob.NoJournal = true
	st := w.Stores()
	_ = mkRepo(st, "r")
	b, err := uploadFiles(st, "r", files, L, 0)
	if err != nil {
		panic(err)
	}
	dir, err := os.MkdirTemp(c16scratchBase(), "verif-c17-")
	if err != nil {
		panic(err)
	}
	defer os.RemoveAll(dir)
	cons := localfs.New(afero.NewBasePathFs(afero.NewOsFs(), dir), localfs.WithRetry(false), localfs.WithLogger(nopLogger))
	bd := core.NewBundle(core.Repo("r"), core.ContextStores(st), core.ConsumableStore(cons), core.BundleID(b.BundleID), core.Logger(nopLogger))
	var fs fuseutil.FileSystem
	guard(rep, "C17|mount|"+mode, func() string { return desc }, rp, func() {
		ro, err := dfuse.NewReadOnlyFS(bd, dfuse.Logger(nopLogger), dfuse.Streaming(c.Streamed), dfuse.Prefetch(c.Prefetch), dfuse.CacheSize(8*L), dfuse.VerifyHash(c.Verify))
		if err != nil {
			rep.Violate("C17|mount-error|"+mode, desc+": "+err.Error(), rp)
			return
		}
		fs = ro.VerifFS()
	})
	if fs == nil {
		return
	}
	ctx := context.Background()
	viol := func(sig, detail string) { rep.Violate("C17|"+sig+"|"+mode, desc+": "+detail, rp) }
	model := c17model(files)
	seenInodes := map[fuseops.InodeID]string{}
	var walk func(n *c17node, ino fuseops.InodeID, path string)
	walk = func(n *c17node, ino fuseops.InodeID, path string) {
		if prev, dup := seenInodes[ino]; dup {
			viol("inode-shared", fmt.Sprintf("inode %d serves both %q and %q", ino, prev, path))
		}
		seenInodes[ino] = path
		// attributes
		guard(rep, "C17|GetInodeAttributes|"+mode, func() string { return desc + " " + path }, rp, func() {
			op := &fuseops.GetInodeAttributesOp{Inode: ino}
			err := fs.GetInodeAttributes(ctx, op)
			rep.Eval(1)
			if err != nil {
				viol("getattr-error", fmt.Sprintf("%q (inode %d): %v", path, ino, err))
				return
			}
			if op.Attributes.Mode.IsDir() != n.dir {
				viol("getattr-type", fmt.Sprintf("%q: dir=%v want %v", path, op.Attributes.Mode.IsDir(), n.dir))
			}
			if !n.dir && op.Attributes.Size != uint64(len(n.data)) {
				viol("getattr-size", fmt.Sprintf("%q: size %d want %d", path, op.Attributes.Size, len(n.data)))
			}
		})
		if !n.dir {
			c17readFile(rep, fs, ino, n.data, L, path, viol, rp)
			// a file is not a directory
			guard(rep, "C17|OpenDir|"+mode, func() string { return desc }, rp, func() {
				if err := fs.OpenDir(ctx, &fuseops.OpenDirOp{Inode: ino}); err == nil {
					viol("opendir-on-file-succeeds", path)
				}
			})
			return
		}
		guard(rep, "C17|OpenDir|"+mode, func() string { return desc }, rp, func() {
			if err := fs.OpenDir(ctx, &fuseops.OpenDirOp{Inode: ino}); err != nil {
				viol("opendir-error", fmt.Sprintf("%q: %v", path, err))
			}
		})
		var names []string
		for name := range n.children {
			names = append(names, name)
		}
		sort.Strings(names)
		// lookups: every child + an absent name
		childIno := map[string]fuseops.InodeID{}
		for _, name := range append(append([]string(nil), names...), "absent", "") {
			guard(rep, "C17|LookUpInode|"+mode, func() string { return desc + " " + path + "/" + name }, rp, func() {
				op := &fuseops.LookUpInodeOp{Parent: ino, Name: name}
				err := fs.LookUpInode(ctx, op)
				rep.Eval(1)
				child, exists := n.children[name]
				switch {
				case !exists && err == nil:
					viol("lookup-absent-name-succeeds", fmt.Sprintf("%q in %q", name, path))
				case !exists && err != jfuse.ENOENT:
					viol("lookup-absent-name-errno", fmt.Sprintf("%q in %q: %v", name, path, err))
				case exists && err != nil:
					viol("lookup-error", fmt.Sprintf("%q in %q: %v", name, path, err))
				case exists:
					childIno[name] = op.Entry.Child
					if op.Entry.Attributes.Mode.IsDir() != child.dir || (!child.dir && op.Entry.Attributes.Size != uint64(len(child.data))) {
						viol("lookup-attributes", fmt.Sprintf("%q in %q: %+v", name, path, op.Entry.Attributes))
					}
				}
			})
		}
		c17readDir(rep, fs, ino, names, childIno, path, viol, rp)
		for _, name := range names {
			if id, ok := childIno[name]; ok {
				p := name
				if path != "" {
					p = path + "/" + name
				}
				walk(n.children[name], id, p)
			}
		}
	}
	walk(model, fuseops.RootInodeID, "")
	// an unknown inode
	guard(rep, "C17|unknown-inode|"+mode, func() string { return desc }, rp, func() {
		if err := fs.GetInodeAttributes(ctx, &fuseops.GetInodeAttributesOp{Inode: 999999}); err == nil {
			viol("getattr-unknown-inode-succeeds", "inode 999999")
		}
		op := &fuseops.ReadDirOp{Inode: 999999, Dst: make([]byte, 256)}
		if err := fs.ReadDir(ctx, op); err == nil && op.BytesRead > 0 {
			viol("readdir-unknown-inode-returns-entries", "inode 999999")
		}
	})
	rep.Outcome(desc)
}

func c16scratchBase() string {
	if st, err := os.Stat("/dev/shm"); err == nil && st.IsDir() {
		return "/dev/shm"
	}
	return ""
}

func c17readFile(rep *lib.Report, fs fuseutil.FileSystem, ino fuseops.InodeID, data []byte, L int, path string, viol func(string, string), rp interface{}) {
	ctx := context.Background()
	n := len(data)
	for off := 0; off <= n+L+1; off++ {
		for _, l := range []int{0, 1, L, n + 1} {
			where := "inside"
			switch {
			case off >= n:
				where = "past-eof"
			case off+l > n:
				where = "crossing-eof"
			}
			guard(rep, "C17|ReadFile|"+where, func() string { return fmt.Sprintf("%q off=%d len=%d size=%d", path, off, l, n) }, rp, func() {
				op := &fuseops.ReadFileOp{Inode: ino, Offset: int64(off), Dst: make([]byte, l)}
				err := fs.ReadFile(ctx, op)
				rep.Eval(1)
				var want []byte
				if off < n {
					end := off + l
					if end > n {
						end = n
					}
					want = data[off:end]
				}
				if err != nil {
					viol("readfile-error|"+where, fmt.Sprintf("%q off=%d len=%d (size %d): %v", path, off, l, n, err))
					return
				}
				if op.BytesRead != len(want) || !bytes.Equal(op.Dst[:op.BytesRead], want) {
					viol("readfile-bytes|"+where, fmt.Sprintf("%q off=%d len=%d (size %d): got %d bytes, want %d", path, off, l, n, op.BytesRead, len(want)))
				}
			})
		}
	}
}

func direntSize(name string) int {
	t := 24 + len(name)
	if pad := t % 8; pad != 0 {
		t += 8 - pad
	}
	return t
}

func c17readDir(rep *lib.Report, fs fuseutil.FileSystem, ino fuseops.InodeID, names []string, childIno map[string]fuseops.InodeID, path string, viol func(string, string), rp interface{}) {
	ctx := context.Background()
	total := 0
	minSz := 0 // the smallest buffer a caller may use: the largest single entry must fit
	for _, nm := range names {
		total += direntSize(nm)
		if direntSize(nm) > minSz {
			minSz = direntSize(nm)
		}
	}
	if len(names) == 0 {
		minSz = 32
	}
	emptyShape := "non-empty-dir"
	if len(names) == 0 {
		emptyShape = "empty-dir"
	}
	// (1) from every offset with a buffer holding everything
	for off := 0; off <= len(names)+1; off++ {
		guard(rep, "C17|ReadDir", func() string { return fmt.Sprintf("%q offset %d", path, off) }, rp, func() {
			op := &fuseops.ReadDirOp{Inode: ino, Offset: fuseops.DirOffset(off), Dst: make([]byte, total+64)}
			err := fs.ReadDir(ctx, op)
			rep.Eval(1)
			if err != nil {
				if off <= len(names) {
					viol("readdir-error|"+emptyShape, fmt.Sprintf("dir %q (%d children) offset %d: %v", path, len(names), off, err))
				}
				return
			}
			ents, perr := parseDirents(op.Dst[:op.BytesRead])
			if perr != nil {
				viol("readdir-malformed", fmt.Sprintf("dir %q offset %d: %v", path, off, perr))
				return
			}
			if off == 0 {
				var got []string
				for _, e := range ents {
					got = append(got, e.Name)
					if childIno[e.Name] != e.Inode {
						viol("readdir-inode-differs-from-lookup", fmt.Sprintf("dir %q entry %q: inode %d, lookup says %d", path, e.Name, e.Inode, childIno[e.Name]))
					}
				}
				sort.Strings(got)
				if strings.Join(got, "|") != strings.Join(names, "|") {
					viol("readdir-differs-from-bundle", fmt.Sprintf("dir %q lists %q, bundle implies %q", path, got, names))
				}
			}
		})
	}
	// (2) the kernel's resume protocol with every buffer size: continue from the last returned Offset
	for buf := minSz; buf <= total+8; buf += 8 {
		guard(rep, "C17|ReadDir-resume", func() string { return fmt.Sprintf("%q buffer %d", path, buf) }, rp, func() {
			seen := map[string]int{}
			var offset fuseops.DirOffset
			for iter := 0; iter < len(names)+3; iter++ {
				op := &fuseops.ReadDirOp{Inode: ino, Offset: offset, Dst: make([]byte, buf)}
				err := fs.ReadDir(ctx, op)
				rep.Eval(1)
				if err != nil {
					if len(names) > 0 || iter > 0 {
						viol("readdir-resume-error", fmt.Sprintf("dir %q buffer %d offset %d: %v", path, buf, offset, err))
					}
					return
				}
				ents, perr := parseDirents(op.Dst[:op.BytesRead])
				if perr != nil {
					viol("readdir-malformed", fmt.Sprintf("dir %q: %v", path, perr))
					return
				}
				if len(ents) == 0 {
					break
				}
				for _, e := range ents {
					seen[e.Name]++
					offset = e.Offset
				}
			}
			for _, nm := range names {
				if seen[nm] != 1 {
					kind := "missed"
					if seen[nm] > 1 {
						kind = "repeated"
					}
					viol("readdir-resume-child-"+kind, fmt.Sprintf("dir %q read with a %d-byte buffer: child %q returned %d times (children %q)", path, buf, nm, seen[nm], names))
					return
				}
			}
			if len(seen) != len(names) {
				viol("readdir-resume-extra", fmt.Sprintf("dir %q: %v vs %q", path, seen, names))
			}
		})
	}
}

var c17hangs int64
var c17skipped sync.Once

func TestC17(t *testing.T) {
	rep := lib.NewReport("C17", "exploration")
	defer rep.Finish(t)
	maxSub := 3
	if lib.Thorough() {
		maxSub = 4
	}
	rep.Rule = fmt.Sprintf("trees = all subsets of <=%d of %v, sizes {3L,0,L+1,1,L} rotated, L=64; both mount modes (streamed with prefetch 0/1, with and without hash verification; pre-downloaded) built with the real NewReadOnlyFS and driven through fuseutil.FileSystem; per mount the COMPLETE battery: LookUpInode of every (directory, child or absent name), GetInodeAttributes of every inode, OpenDir, ReadDir from every offset, ReadDir with the kernel resume protocol at every buffer size, ReadFile at every offset 0..size+L+1 x 4 lengths; plus a 96 KiB leaf size (larger than the copy buffers of the download path) x {2 leaves + 5 bytes, exactly one leaf} x streamed / pre-downloaded x hash verification on / off (mount and bundle): reads at the copy-buffer and leaf boundaries; distinct = distinct (tree, mode)", maxSub, c17paths)
	var cases []c17case
	n := len(c17paths)
	for mask := 0; mask < 1<<uint(n); mask++ {
		var s []string
		for i := 0; i < n; i++ {
			if mask&(1<<uint(i)) != 0 {
				s = append(s, c17paths[i])
			}
		}
		if len(s) > maxSub {
			continue
		}
		for so := 0; so < 2; so++ {
			if so == 1 && !lib.Thorough() && len(s) > 2 {
				continue
			}
			cases = append(cases, c17case{s, so, true, 0, false}, c17case{s, so, false, 0, false}, c17case{s, so, true, 0, true})
			if lib.Thorough() || len(s) <= 2 {
				cases = append(cases, c17case{s, so, true, 1, false}, c17case{s, so, true, 1, true})
			}
		}
	}
	var wg sync.WaitGroup
	sem := make(chan struct{}, 16)
	for _, c := range cases {
		wg.Add(1)
		sem <- struct{}{}
		go func(c c17case) {
			defer wg.Done()
			defer func() { <-sem }()
			// a mount whose operations never return must not take the whole check with it: the case runs under a watchdog
			// (its goroutine is abandoned if it is stuck); after three stuck cases the remaining ones are not started
			if atomic.LoadInt64(&c17hangs) >= 3 {
				c17skipped.Do(func() { rep.NotExhaustive("three cases were stuck in a file system operation: the remaining cases were not run") })
				return
			}
			done := make(chan struct{})
			go func() {
				defer close(done)
				c17run(rep, c)
			}()
			select {
			case <-done:
			case <-time.After(3 * time.Minute):
				mode := "streamed"
				if !c.Streamed {
					mode = "pre-downloaded"
				}
				if atomic.AddInt64(&c17hangs, 1) <= 3 {
					rep.Violate("C17|hang|"+mode, fmt.Sprintf("the battery over paths %v (mode %s, prefetch %d, verify %v) did not finish within 3 minutes: a file system operation never returned", c.Paths, mode, c.Prefetch, c.Verify),
						map[string]interface{}{"paths": c.Paths, "mode": mode, "prefetch": c.Prefetch})
				}
			}
		}(c)
	}
	wg.Wait()
	if atomic.LoadInt64(&c17hangs) == 0 {
		c17bigLeaf(rep)
	}
	rep.Set("mounts", len(cases))
	rep.Sample(map[string]interface{}{"case": cases[len(cases)/2]})
}

// c17bigLeaf: leaves larger than the copy buffers of the download path (96 KiB: three 32 KiB copies per leaf), files of
// 2 leaves + 5 bytes and of exactly one leaf, streamed and pre-downloaded mounts, hash verification on and off (on the
// mount and on the bundle the mount downloads from); reads at the copy-buffer and leaf boundaries.
func c17bigLeaf(rep *lib.Report) {
	const L = 96 * 1024
	files := map[string][]byte{"big": pattern("pos", 2*L+5, L), "one": pattern("pos", L, L)}
	ctx := context.Background()
	for _, streamed := range []bool{false, true} {
		for _, verify := range []bool{false, true} {
			mode := map[bool]string{true: "streamed", false: "pre-downloaded"}[streamed] + map[bool]string{true: "+verify-hash", false: ""}[verify]
			rp := map[string]interface{}{"leaf_size": L, "mode": mode}
			guard(rep, "C17|big-leaf|"+mode, func() string { return mode }, rp, func() {
				w := NewWorld()
				w.Blob.NoJournal = true
				st := w.Stores()
				_ = mkRepo(st, "r")
				b, err := uploadFiles(st, "r", files, L, 0)
				if err != nil {
					panic(err)
				}
				dir, err := os.MkdirTemp(c16scratchBase(), "verif-c17-")
				if err != nil {
					panic(err)
				}
				defer os.RemoveAll(dir)
				cons := localfs.New(afero.NewBasePathFs(afero.NewOsFs(), dir), localfs.WithRetry(false), localfs.WithLogger(nopLogger))
				bd := core.NewBundle(core.Repo("r"), core.ContextStores(st), core.ConsumableStore(cons), core.BundleID(b.BundleID), core.Logger(nopLogger), core.BundleWithVerifyHash(verify))
				ro, err := dfuse.NewReadOnlyFS(bd, dfuse.Logger(nopLogger), dfuse.Streaming(streamed), dfuse.Prefetch(0), dfuse.CacheSize(8*L), dfuse.VerifyHash(verify))
				if err != nil {
					rep.Violate("C17|big-leaf|mount-error|"+mode, err.Error(), rp)
					return
				}
				fs := ro.VerifFS()
				for name, data := range files {
					lk := &fuseops.LookUpInodeOp{Parent: fuseops.RootInodeID, Name: name}
					if err := fs.LookUpInode(ctx, lk); err != nil {
						rep.Violate("C17|big-leaf|lookup-error|"+mode, name+": "+err.Error(), rp)
						continue
					}
					n := len(data)
					for _, off := range []int{0, 1, 32*1024 - 1, 32 * 1024, 64 * 1024, 64*1024 + 1, L - 1, L, L + 32*1024, 2*L - 1, 2 * L, 2*L + 4} {
						for _, l := range []int{1, 4096, 40000, L, n} {
							if off >= n {
								continue
							}
							op := &fuseops.ReadFileOp{Inode: lk.Entry.Child, Offset: int64(off), Dst: make([]byte, l)}
							err := fs.ReadFile(ctx, op)
							rep.Eval(1)
							end := off + l
							if end > n {
								end = n
							}
							if err != nil {
								rep.Violate("C17|big-leaf|readfile-error|"+mode, fmt.Sprintf("%q (size %d, leaf %d) off=%d len=%d: %v", name, n, L, off, l, err), rp)
								return
							}
							if op.BytesRead != end-off || !bytes.Equal(op.Dst[:op.BytesRead], data[off:end]) {
								rep.Violate("C17|big-leaf|readfile-bytes|"+mode, fmt.Sprintf("%q (size %d, leaf %d) off=%d len=%d: got %d bytes, want %d, or other bytes", name, n, L, off, l, op.BytesRead, end-off), rp)
								return
							}
						}
					}
				}
			})
		}
	}
}
