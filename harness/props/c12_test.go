package props

import (
	"fmt"
	"sort"
	"strings"
	"testing"
	"time"

	"github.com/oneconcern/datamon/pkg/core"
	"github.com/oneconcern/datamon/pkg/model"
	"verif/harness/lib"
)

// C12 — a diamond commits at most once, from completed splits only.
// E1: the real split add / commit / cancel call sequences (as the CLI issues them) run as concurrent clients with all
// metadata + vmetadata store calls gated; preemption-bounded DFS, plus a crash (before/after) at every metadata write
// followed by a retry. The implementation is the protocol model.

var c12gates = map[string]func(string, string) bool{"meta": allCalls, "vmeta": allCalls}

type c12world struct {
	w       *World
	diamond string
}

func c12setup(x *lib.Exec, doneSplits map[string]map[string][]byte) *c12world {
	w := NewWorld()
	st := w.Stores()
	if err := mkRepo(st, "r"); err != nil {
		panic(err)
	}
	dd, err := core.CreateDiamond("r", st, core.DiamondLogger(nopLogger))
	if err != nil {
		panic(err)
	}
	ids := make([]string, 0, len(doneSplits))
	for id := range doneSplits {
		ids = append(ids, id)
	}
	sort.Strings(ids)
	for _, id := range ids {
		time.Sleep(time.Second)
		if err := splitAdd(st, "r", dd.DiamondID, id, doneSplits[id]); err != nil {
			panic(err)
		}
	}
	time.Sleep(time.Second)
	cw := &c12world{w: w, diamond: dd.DiamondID}
	x.Data["cw"] = cw
	return cw
}

func c12bundles(w *World) []string {
	var out []string
	for _, k := range w.Meta.RawKeys() {
		if strings.HasPrefix(k, "bundles/r/") && strings.HasSuffix(k, "/bundle.yaml") {
			out = append(out, strings.Split(k, "/")[2])
		}
	}
	return out
}

func c12has(s *lib.MemStore, key string) bool { _, ok := s.RawGet(key); return ok }

// c12common evaluates the invariants shared by all scenarios on the end state.
func c12common(x *lib.Exec, cw *c12world, tag string) (bundles []string) {
	w := cw.w
	bundles = c12bundles(w)
	if len(bundles) > 1 {
		x.Violate("C12|I1-two-bundles|"+tag, fmt.Sprintf("diamond %s produced %d bundles: %v", cw.diamond, len(bundles), bundles))
	}
	for _, s := range []*lib.MemStore{w.Meta, w.VMeta} {
		for _, je := range s.JournalSince(0) {
			if (je.Op == "put" && je.Existed) || je.Op == "delete" {
				if strings.HasSuffix(je.Key, "-done.yaml") || strings.HasSuffix(je.Key, "bundle.yaml") || strings.Contains(je.Key, "/bundle-files-") {
					x.Violate("C12|I4-terminal-object-overwritten|"+tag, fmt.Sprintf("%s of existing %s", je.Op, je.Key))
				}
			}
		}
	}
	// a diamond whose final descriptor says done names an existing bundle
	if dd, err := core.GetDiamond("r", cw.diamond, w.Stores()); err == nil && dd.State == model.DiamondDone {
		if dd.BundleID == "" || !c12has(w.Meta, model.GetArchivePathToBundle("r", dd.BundleID)) {
			x.Violate("C12|done-diamond-without-bundle|"+tag, fmt.Sprintf("diamond done with bundle %q which does not exist", dd.BundleID))
		}
	}
	return bundles
}

// c12late runs actors that start after the diamond reached a terminal state: all must fail and write nothing.
func c12late(x *lib.Exec, cw *c12world, tag string) {
	w := cw.w
	if !c12has(w.VMeta, model.GetArchivePathToFinalDiamond("r", cw.diamond)) {
		return
	}
	st := w.Stores()
	type actor struct {
		name string
		run  func() error
	}
	actors := []actor{
		{"commit", func() error { _, err := diamondCommit(st, "r", cw.diamond, model.EnableConflicts); return err }},
		{"cancel", func() error { return diamondCancel(st, "r", cw.diamond) }},
		{"split-add", func() error { return splitAdd(st, "r", cw.diamond, "late", map[string][]byte{"z": []byte("late")}) }},
	}
	for _, a := range actors {
		jm, jv, jb := w.Meta.JournalLen(), w.VMeta.JournalLen(), w.Blob.JournalLen()
		err := a.run()
		if err == nil {
			x.Violate("C12|I2-late-"+a.name+"-accepted|"+tag, "a "+a.name+" started after the diamond was terminated and succeeded")
		}
		if w.Meta.JournalLen() != jm || w.VMeta.JournalLen() != jv || w.Blob.JournalLen() != jb {
			x.Violate("C12|I2-late-"+a.name+"-wrote|"+tag, fmt.Sprintf("a %s started after the diamond was terminated wrote to the stores (err=%v): %v %v", a.name, err, w.Meta.JournalSince(jm), w.VMeta.JournalSince(jv)))
		}
	}
}

func errTag(err error) string {
	if err == nil {
		return "ok"
	}
	return "err"
}

// crashOnWrites offers crash-before / crash-after on every write of the given clients.
func crashOnWrites(clients ...int) func(x *lib.Exec, c *lib.Call) []lib.Decision {
	return func(x *lib.Exec, c *lib.Call) []lib.Decision {
		for _, id := range clients {
			if c.Client == id && c.Write {
				return []lib.Decision{lib.CrashBefore, lib.CrashAfter}
			}
		}
		return nil
	}
}

var c12files = map[string]map[string][]byte{
	"s1": {"a": []byte("content-one")},
	"s2": {"b": []byte("content-two-longer")},
}

// --- scenario A: two concurrent commits (optionally one crashes and is retried)
func c12twoCommits(second string) *lib.Scenario {
	sc := &lib.Scenario{Name: "commit||" + second}
	sc.Setup = func(x *lib.Exec) { c12setup(x, c12files) }
	commit := func(x *lib.Exec, id int) error {
		cw := x.Data["cw"].(*c12world)
		_, err := diamondCommit(cw.w.Gated(x, id, c12gates), "r", cw.diamond, model.EnableConflicts)
		return err
	}
	other := commit
	if second == "cancel" {
		other = func(x *lib.Exec, id int) error {
			cw := x.Data["cw"].(*c12world)
			return diamondCancel(cw.w.Gated(x, id, c12gates), "r", cw.diamond)
		}
	}
	sc.Phases = [][]lib.ClientFn{{commit, other}}
	sc.Final = func(x *lib.Exec) {
		cw := x.Data["cw"].(*c12world)
		if x.Hung {
			x.Violate("C12|hang|"+sc.Name, "actors never completed")
			return
		}
		tag := "actors=commit," + second
		bundles := c12common(x, cw, tag)
		// a commit that reports success must be the one recorded by the diamond
		dd, derr := core.GetDiamond("r", cw.diamond, cw.w.Stores())
		okCommits := 0
		for i := 0; i < 2; i++ {
			if x.ClientErr[i] == nil && (i == 0 || second == "commit") {
				okCommits++
			}
		}
		if okCommits > 1 {
			x.Violate("C12|two-commits-report-success|"+tag, "both commits returned nil")
		}
		if okCommits == 1 && (derr != nil || dd.State != model.DiamondDone) {
			x.Violate("C12|successful-commit-but-diamond-not-done|"+tag, fmt.Sprintf("state %v err %v", dd.State, derr))
		}
		if second == "cancel" && x.ClientErr[1] == nil && (derr != nil || dd.State != model.DiamondCanceled) {
			x.Violate("C12|successful-cancel-but-diamond-not-canceled|"+tag, fmt.Sprintf("state %v err %v", dd.State, derr))
		}
		if len(bundles) == 1 {
			c12checkBundle(x, cw, bundles[0], []string{"s1", "s2"}, []string{"s1", "s2"}, tag)
		}
		c12late(x, cw, tag)
		x.SetOutcome(fmt.Sprintf("bundles=%d;c0=%s;c1=%s;state=%s", len(bundles), errTag(x.ClientErr[0]), errTag(x.ClientErr[1]), dd.State))
	}
	return sc
}

// c12checkBundle: entries of the committed bundle = files of a set X of splits, must ⊆ X ⊆ may (distinct paths per split).
func c12checkBundle(x *lib.Exec, cw *c12world, bundle string, must, may []string, tag string) {
	ents, err := bundleEntries(cw.w.Stores(), "r", bundle)
	if err != nil {
		x.Violate("C12|I5-bundle-unreadable|"+tag, err.Error())
		return
	}
	recorded := map[string]map[string]bool{} // split -> file names of the generation recorded in split-done
	for _, sid := range may {
		sd, err := core.GetSplit("r", cw.diamond, sid, cw.w.Stores())
		if err != nil || sd.State != model.SplitDone {
			continue
		}
		files := map[string]bool{}
		for i := uint64(0); i < sd.SplitEntriesFileCount; i++ {
			b, ok := cw.w.VMeta.RawGet(model.GetArchivePathToSplitFileList("r", cw.diamond, sid, sd.GenerationID, i))
			if !ok {
				x.Violate("C12|I4-split-done-names-missing-index-file|"+tag, fmt.Sprintf("split %s generation %s index %d missing", sid, sd.GenerationID, i))
				continue
			}
			for _, line := range strings.Split(string(b), "\n") {
				line = strings.TrimSpace(line)
				if strings.HasPrefix(line, "name:") {
					files[strings.TrimSpace(strings.TrimPrefix(line, "name:"))] = true
				}
			}
		}
		recorded[sid] = files
	}
	owner := map[string]string{}
	for sid, fs := range recorded {
		for f := range fs {
			owner[f] = sid
		}
	}
	used := map[string]bool{}
	for name := range ents {
		sid, ok := owner[name]
		if !ok {
			x.Violate("C12|I5-entry-from-no-completed-run|"+tag, fmt.Sprintf("bundle entry %q belongs to no generation recorded in a split-done descriptor; entries %v", name, ents))
			continue
		}
		used[sid] = true
	}
	for sid := range used {
		for f := range recorded[sid] {
			if _, ok := ents[f]; !ok {
				x.Violate("C12|I5-partial-split|"+tag, fmt.Sprintf("bundle holds some but not all files of split %s (missing %q)", sid, f))
			}
		}
	}
	for _, sid := range must {
		if !used[sid] && len(recorded[sid]) > 0 {
			x.Violate("C12|I5-completed-split-missing|"+tag, fmt.Sprintf("split %s was complete before the commit started but its files are not in the bundle %v", sid, ents))
		}
	}
}

// --- scenario C: a split add races with a commit
func c12splitVsCommit() *lib.Scenario {
	sc := &lib.Scenario{Name: "split-add||commit"}
	sc.Setup = func(x *lib.Exec) { c12setup(x, map[string]map[string][]byte{"s1": c12files["s1"]}) }
	sc.Phases = [][]lib.ClientFn{{
		func(x *lib.Exec, id int) error {
			cw := x.Data["cw"].(*c12world)
			return splitAdd(cw.w.Gated(x, id, c12gates), "r", cw.diamond, "s2", c12files["s2"])
		},
		func(x *lib.Exec, id int) error {
			cw := x.Data["cw"].(*c12world)
			_, err := diamondCommit(cw.w.Gated(x, id, c12gates), "r", cw.diamond, model.EnableConflicts)
			return err
		},
	}}
	sc.AfterGrant = func(x *lib.Exec, c *lib.Call, d lib.Decision) {
		if c.Client != 1 {
			return
		}
		cw := x.Data["cw"].(*c12world)
		s2done := c12has(cw.w.VMeta, model.GetArchivePathToFinalSplit("r", cw.diamond, "s2"))
		if _, ok := x.Data["s2-done-at-commit-start"]; !ok {
			// evaluated after the commit's first call: s2 done before that call was issued?
			x.Data["s2-done-at-commit-start"] = s2done
		}
		if c.Op == "Put" && strings.HasSuffix(c.Key, "/bundle.yaml") {
			x.Data["s2-done-at-bundle-write"] = s2done
		}
	}
	sc.Final = func(x *lib.Exec) {
		cw := x.Data["cw"].(*c12world)
		if x.Hung {
			x.Violate("C12|hang|"+sc.Name, "actors never completed")
			return
		}
		tag := "actors=split-add,commit"
		bundles := c12common(x, cw, tag)
		if len(bundles) == 1 {
			must := []string{"s1"}
			if b, _ := x.Data["s2-done-at-commit-start"].(bool); b {
				must = append(must, "s2")
			}
			may := []string{"s1"}
			if b, _ := x.Data["s2-done-at-bundle-write"].(bool); b {
				may = append(may, "s2")
			}
			c12checkBundle(x, cw, bundles[0], must, may, tag)
			ents, _ := bundleEntries(cw.w.Stores(), "r", bundles[0])
			if _, has := ents["b"]; has && len(may) == 1 {
				x.Violate("C12|I5-split-completed-after-bundle-write-included|"+tag, "bundle contains files of a split that completed after the bundle descriptor was written")
			}
		}
		if x.ClientErr[0] == nil && !c12has(cw.w.VMeta, model.GetArchivePathToFinalSplit("r", cw.diamond, "s2")) {
			x.Violate("C12|split-add-ok-without-split-done|"+tag, "split add returned nil but split-done does not exist")
		}
		c12late(x, cw, tag)
		x.SetOutcome(fmt.Sprintf("bundles=%d;split=%s;commit=%s", len(bundles), errTag(x.ClientErr[0]), errTag(x.ClientErr[1])))
	}
	return sc
}

// --- scenario D: two runs of the same split ID race; then a rerun of the completed split; then a commit
func c12rerun(crash bool) *lib.Scenario {
	sc := &lib.Scenario{Name: "split-run||split-rerun"}
	if crash {
		sc.Name = "split-run(crash)+rerun"
	}
	runA := map[string][]byte{"a": []byte("content-one")}
	runB := map[string][]byte{"a": []byte("content-two-longer"), "c": []byte("content-one")}
	sc.Setup = func(x *lib.Exec) { c12setup(x, nil) }
	mk := func(files map[string][]byte) lib.ClientFn {
		return func(x *lib.Exec, id int) error {
			cw := x.Data["cw"].(*c12world)
			return splitAdd(cw.w.Gated(x, id, c12gates), "r", cw.diamond, "s1", files)
		}
	}
	if crash {
		sc.Phases = [][]lib.ClientFn{{mk(runA)}, {mk(runB)}}
		sc.Faults = crashOnWrites(0)
	} else {
		sc.Phases = [][]lib.ClientFn{{mk(runA), mk(runB)}}
	}
	sc.Final = func(x *lib.Exec) {
		cw := x.Data["cw"].(*c12world)
		if x.Hung {
			x.Violate("C12|hang|"+sc.Name, "actors never completed")
			return
		}
		tag := "actors=split-run,split-rerun"
		if crash {
			tag = "actors=split-run-crashed,split-rerun"
		}
		st := cw.w.Stores()
		done := c12has(cw.w.VMeta, model.GetArchivePathToFinalSplit("r", cw.diamond, "s1"))
		oks := 0
		for i := 0; i < 2; i++ {
			if x.ClientErr[i] == nil && !x.IsDead(i) {
				oks++
			}
		}
		if !crash && oks > 1 {
			x.Violate("C12|two-runs-of-one-split-both-succeed|"+tag, "both runs of split s1 returned nil")
		}
		if oks >= 1 && !done {
			x.Violate("C12|split-add-ok-without-split-done|"+tag, "a run returned nil but split-done does not exist")
		}
		if done {
			// I3: a completed split cannot be rerun, and the refusal writes nothing
			jv, jb := cw.w.VMeta.JournalLen(), cw.w.Blob.JournalLen()
			err := splitAdd(st, "r", cw.diamond, "s1", map[string][]byte{"zz": []byte("rerun-after-done")})
			if err == nil {
				x.Violate("C12|I3-completed-split-rerun-accepted|"+tag, "split add on a completed split succeeded")
			}
			if cw.w.VMeta.JournalLen() != jv || cw.w.Blob.JournalLen() != jb {
				x.Violate("C12|I3-completed-split-rerun-wrote|"+tag, fmt.Sprintf("refused rerun wrote %v", cw.w.VMeta.JournalSince(jv)))
			}
			bid, err := diamondCommit(st, "r", cw.diamond, model.EnableConflicts)
			if err != nil {
				x.Violate("C12|commit-after-rerun-failed|"+tag, err.Error())
			} else {
				ents, _ := bundleEntries(st, "r", bid)
				var names []string
				for n := range ents {
					names = append(names, n)
				}
				sort.Strings(names)
				got := strings.Join(names, ",")
				if got != "a" && got != "a,c" {
					x.Violate("C12|I5-bundle-mixes-runs|"+tag, "bundle entries "+got+" are not the files of exactly one run")
				}
				c12checkBundle(x, cw, bid, []string{"s1"}, []string{"s1"}, tag)
				hashes := c11hash(nil)
				if got == "a" && ents["a"] != hashes["h1"] || got == "a,c" && (ents["a"] != hashes["h2"] || ents["c"] != hashes["h1"]) {
					x.Violate("C12|I5-bundle-mixes-runs|"+tag, fmt.Sprintf("bundle entries %v mix contents of both runs", ents))
				}
				x.SetOutcome("committed:" + got)
			}
		} else {
			x.SetOutcome(fmt.Sprintf("not-done;r0=%s;r1=%s", errTag(x.ClientErr[0]), errTag(x.ClientErr[1])))
		}
		c12common(x, cw, tag)
		c12late(x, cw, tag)
	}
	return sc
}

// --- scenario E: a commit (or cancel) crashes at any metadata write, then the same command is retried
func c12crashRetry(kind string) *lib.Scenario {
	sc := &lib.Scenario{Name: kind + "(crash)+retry"}
	sc.Setup = func(x *lib.Exec) { c12setup(x, c12files) }
	run := func(x *lib.Exec, id int) error {
		cw := x.Data["cw"].(*c12world)
		if kind == "cancel" {
			return diamondCancel(cw.w.Gated(x, id, c12gates), "r", cw.diamond)
		}
		_, err := diamondCommit(cw.w.Gated(x, id, c12gates), "r", cw.diamond, model.EnableConflicts)
		return err
	}
	sc.Phases = [][]lib.ClientFn{{run}, {run}}
	sc.Faults = crashOnWrites(0)
	sc.Final = func(x *lib.Exec) {
		cw := x.Data["cw"].(*c12world)
		if x.Hung {
			x.Violate("C12|hang|"+sc.Name, "actors never completed")
			return
		}
		tag := "actors=" + kind + "-crashed," + kind + "-retry"
		// name the crash site
		site := "none"
		for _, s := range x.Steps {
			if strings.HasPrefix(s.Granted, "crash-") {
				g := s.Granted
				switch {
				case strings.Contains(g, "bundle.yaml"):
					site = strings.Fields(g)[0] + ":bundle.yaml"
				case strings.Contains(g, "diamond-done"):
					site = strings.Fields(g)[0] + ":diamond-done"
				case strings.Contains(g, "bundle-files-"):
					site = strings.Fields(g)[0] + ":bundle-index-file"
				default:
					site = strings.Fields(g)[0] + ":other"
				}
			}
		}
		bundles := c12common(x, cw, tag+"|crash="+site)
		if kind == "commit" && len(bundles) == 1 {
			c12checkBundle(x, cw, bundles[0], []string{"s1", "s2"}, []string{"s1", "s2"}, tag)
		}
		c12late(x, cw, tag)
		x.SetOutcome(fmt.Sprintf("bundles=%d;crash=%s;retry=%s", len(bundles), site, errTag(x.ClientErr[1])))
	}
	return sc
}

// --- scenario E: a split run crashes, the diamond is then terminated (commit with the other split, or cancel), and the
// crashed split is run again with the same ID: the rerun must be refused and write nothing; the bundle holds s1 only
// unless the crashed run had already recorded its completion.
func c12rerunAfterTermination(how string) *lib.Scenario {
	sc := &lib.Scenario{Name: "split-run(crash);" + how + ";split-rerun"}
	sc.Setup = func(x *lib.Exec) { c12setup(x, map[string]map[string][]byte{"s1": c12files["s1"]}) }
	sc.Phases = [][]lib.ClientFn{
		{func(x *lib.Exec, id int) error {
			cw := x.Data["cw"].(*c12world)
			return splitAdd(cw.w.Gated(x, id, c12gates), "r", cw.diamond, "s2", c12files["s2"])
		}},
		{func(x *lib.Exec, id int) error {
			cw := x.Data["cw"].(*c12world)
			time.Sleep(time.Second)
			if how == "cancel" {
				return diamondCancel(cw.w.Stores(), "r", cw.diamond)
			}
			_, err := diamondCommit(cw.w.Stores(), "r", cw.diamond, model.EnableConflicts)
			return err
		}},
		{func(x *lib.Exec, id int) error {
			cw := x.Data["cw"].(*c12world)
			time.Sleep(time.Second)
			w := cw.w
			x.Data["terminated"] = c12has(w.VMeta, model.GetArchivePathToFinalDiamond("r", cw.diamond))
			x.Data["jlens"] = [3]int{w.Meta.JournalLen(), w.VMeta.JournalLen(), w.Blob.JournalLen()}
			err := splitAdd(w.Stores(), "r", cw.diamond, "s2", map[string][]byte{"b": []byte("content of the second run"), "b2": []byte("more")})
			x.Data["jlens-after"] = [3]int{w.Meta.JournalLen(), w.VMeta.JournalLen(), w.Blob.JournalLen()}
			return err
		}},
	}
	sc.Faults = crashOnWrites(0)
	sc.Final = func(x *lib.Exec) {
		cw := x.Data["cw"].(*c12world)
		if x.Hung {
			x.Violate("C12|hang|"+sc.Name, "actors never completed")
			return
		}
		tag := "actors=split-run-crashed," + how + ",split-rerun"
		site := "none"
		for _, s := range x.Steps {
			if strings.HasPrefix(s.Granted, "crash-") {
				g := s.Granted
				site = strings.Fields(g)[0] + ":other"
				if strings.Contains(g, "split-done") {
					site = strings.Fields(g)[0] + ":split-done"
				}
			}
		}
		bundles := c12common(x, cw, tag+"|crash="+site)
		if x.ClientErr[1] != nil {
			x.Violate("C12|"+how+"-fails-with-crashed-split|"+tag, fmt.Sprintf("%s after a split run crashed (%s): %v", how, site, x.ClientErr[1]))
		}
		if term, _ := x.Data["terminated"].(bool); term {
			if x.ClientErr[2] == nil {
				x.Violate("C12|I2-late-split-rerun-accepted|"+tag, fmt.Sprintf("the rerun of split s2 (first run crashed at %s) started after the diamond was terminated (%s) and succeeded", site, how))
			}
			if x.Data["jlens"] != x.Data["jlens-after"] {
				x.Violate("C12|I2-late-split-rerun-wrote|"+tag, fmt.Sprintf("the rerun of split s2 after the diamond was terminated (%s) wrote to the stores (err=%v)", how, x.ClientErr[2]))
			}
		}
		if how == "commit" && len(bundles) == 1 {
			c12checkBundle(x, cw, bundles[0], []string{"s1"}, []string{"s1", "s2"}, tag)
		}
		x.SetOutcome(fmt.Sprintf("bundles=%d;crash=%s;%s=%s;rerun=%s", len(bundles), site, how, errTag(x.ClientErr[1]), errTag(x.ClientErr[2])))
	}
	return sc
}

func TestC12(t *testing.T) {
	rep := lib.NewReport("C12", "model_checking")
	defer rep.Finish(t)
	pb := 2
	if lib.Thorough() {
		pb = 3
	}
	rep.Rule = fmt.Sprintf("real split add / commit / cancel call sequences as concurrent clients, every metadata+vmetadata store call a scheduling point; all interleavings with <=%d preemptions; crash before/after every store write of the crashing actor followed by a retry; a split run crashing at every store write, then commit / cancel, then a rerun of that split ID; commits of 2..3 completed splits with every listing page size 1..10 (all files of all splits); invariants I1..I5 on every end state (+ late actors must fail without writing); distinct = distinct (scenario, outcome)", pb)
	scs := []struct {
		sc     *lib.Scenario
		faults int
	}{
		{c12twoCommits("commit"), 0},
		{c12twoCommits("cancel"), 0},
		{c12splitVsCommit(), 0},
		{c12rerun(false), 0},
		{c12rerun(true), 1},
		{c12crashRetry("commit"), 1},
		{c12crashRetry("cancel"), 1},
		{c12rerunAfterTermination("commit"), 1},
		{c12rerunAfterTermination("cancel"), 1},
	}
	names := make([]string, len(scs))
	for i, s := range scs {
		names[i] = s.sc.Name
	}
	stall := 5 * time.Minute
	if lib.Thorough() {
		stall = 25 * time.Minute
	}
	parent := lib.RunCases(t, rep, "TestC12", len(scs), 0, stall, func(i int) {
		e := &lib.Explorer{Sc: scs[i].sc, PreemptBound: pb, FaultBound: scs[i].faults, MaxExecs: 400000, Budget: 20 * time.Minute}
		if !lib.Thorough() {
			e.Budget = 3 * time.Minute
		}
		e.Explore(t, rep)
		rep.Set("executions:"+scs[i].sc.Name, e.Execs)
		rep.Set("max_steps:"+scs[i].sc.Name, e.MaxSteps)
		var os []string
		for o, n := range e.Outcomes {
			os = append(os, fmt.Sprintf("%s x%d", o, n))
		}
		sort.Strings(os)
		rep.Set("outcomes:"+scs[i].sc.Name, os)
	}, func(i int, how, output string) {
		rep.Violate("C12|worker-"+strings.SplitN(how, ":", 2)[0]+"|"+names[i], fmt.Sprintf("scenario %s: worker %s: %s", names[i], how, output), nil)
	})
	if parent {
		c11pages(t, rep, "C12") // commits of completed splits with every listing page size 1..10: no completed split left out
		rep.Set("scenarios", names)
		rep.Set("preemption_bound_completed", pb)
	}
}
