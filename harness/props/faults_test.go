package props

import (
	"fmt"
	"regexp"
	"sort"
	"strings"
	"testing"
	"time"

	"verif/harness/lib"

	context2 "github.com/oneconcern/datamon/pkg/context"
	"github.com/oneconcern/datamon/pkg/core"
	"github.com/oneconcern/datamon/pkg/model"
)

// Fault transparency (E1, fault enumeration): a single transient store failure at ANY store call of an operation -
// before the call (no effect), for writes also after the call landed or after the request body was consumed, for every
// call also a request that hangs and then fails - must never make the operation report success with a result other than
// the fault-free one. Reporting the error is always acceptable.

func transientFaults(clients ...int) func(x *lib.Exec, c *lib.Call) []lib.Decision {
	return func(x *lib.Exec, c *lib.Call) []lib.Decision {
		for _, id := range clients {
			if c.Client == id {
				if c.Write {
					return []lib.Decision{lib.FailBefore, lib.FailAfter, lib.FailConsumed, lib.FailSlow}
				}
				return []lib.Decision{lib.FailBefore, lib.FailSlow}
			}
		}
		return nil
	}
}

// noPanic runs an operation of the code under test inside a client: a panic becomes an error and is remembered, so that
// the scenario's Final reports it as a violation instead of losing the whole process.
func noPanic(x *lib.Exec, f func() error) (err error) {
	defer func() {
		if r := recover(); r != nil {
			x.Data["panic"] = fmt.Sprint(r)
			err = fmt.Errorf("panic: %v", r)
		}
	}()
	return f()
}

var (
	reKsuid  = regexp.MustCompile(`[0-9A-Za-z]{27}`)
	reDigits = regexp.MustCompile(`[0-9]+`)
	reHash   = regexp.MustCompile(`[0-9a-f]{32,}`)
)

// faultClass summarises the injected deviations of an execution as "kind:store.Op(key class)", identifiers abstracted.
func faultClass(x *lib.Exec) string {
	var sites []string
	for _, s := range x.Steps {
		g := s.Granted
		for _, k := range []string{"fail-after-reading-body", "fail-slow", "fail-before", "fail-after", "crash-before", "crash-after"} {
			if strings.HasPrefix(g, k+" ") {
				rest := g[len(k)+1:]
				if i := strings.Index(rest, ":"); i >= 0 {
					rest = rest[i+1:]
				}
				rest = reHash.ReplaceAllString(rest, "<hash>")
				rest = reKsuid.ReplaceAllString(rest, "<id>")
				rest = reDigits.ReplaceAllString(rest, "N")
				sites = append(sites, k+":"+rest)
				break
			}
		}
	}
	if len(sites) == 0 {
		return "none"
	}
	sort.Strings(sites)
	return strings.Join(sites, "+")
}

// ---- listings under a transient fault (C07 all kinds, C08 labels) --------------------------------------------

type listWorld struct {
	w        *World
	repos    []string
	bundles  []string // of repo r
	labels   []string
	diamonds []string
	splits   []string // of the first diamond
}

func mkListWorld() *listWorld {
	w := NewWorld()
	w.Blob.NoJournal = true
	st := w.Stores()
	must := func(err error) {
		if err != nil {
			panic(err)
		}
	}
	lw := &listWorld{w: w, repos: []string{"r", "r-2", "ra"}}
	for _, n := range lw.repos {
		must(mkRepo(st, n))
	}
	for i := 0; i < 3; i++ {
		b, err := uploadFiles(st, "r", map[string][]byte{fmt.Sprintf("f%d", i): []byte(fmt.Sprintf("content %d", i))}, c11L, 1)
		must(err)
		lw.bundles = append(lw.bundles, b.BundleID)
		time.Sleep(time.Second)
	}
	for i, l := range []string{"v1", "v1.1", "v2", "w", "x-y"} {
		must(setLabel(st, "r", l, lw.bundles[i%3]))
		lw.labels = append(lw.labels, l)
	}
	must(setLabel(st, "ra", "other", lw.bundles[0]))
	for i := 0; i < 2; i++ {
		dd, err := core.CreateDiamond("r", st, core.DiamondLogger(nopLogger))
		must(err)
		lw.diamonds = append(lw.diamonds, dd.DiamondID)
		time.Sleep(time.Second)
	}
	for _, s := range []string{"s1", "s2", "s3"} {
		must(splitAdd(st, "r", lw.diamonds[0], s, map[string][]byte{"p/" + s: []byte("split " + s)}))
		lw.splits = append(lw.splits, s)
		time.Sleep(time.Second)
	}
	return lw
}

// listingFaultSweep runs every listing function of the given kinds with page size 2 (several pages) under every single
// transient fault on its metadata calls.
func listingFaultSweep(t *testing.T, rep *lib.Report, prop string, kinds []string) {
	type lister struct {
		name string
		want func(lw *listWorld) []string
		list func(lw *listWorld, st context2.Stores) ([]string, error)
	}
	opts := []core.Option{core.BatchSize(2), core.ConcurrentList(2)}
	all := map[string][]lister{
		"repos": {
			{"ListRepos", func(lw *listWorld) []string { return lw.repos }, func(lw *listWorld, st context2.Stores) (o []string, err error) {
				rs, err := core.ListRepos(st, opts...)
				for _, r := range rs {
					o = append(o, r.Name)
				}
				return
			}},
			{"ListReposApply", func(lw *listWorld) []string { return lw.repos }, func(lw *listWorld, st context2.Stores) (o []string, err error) {
				err = core.ListReposApply(st, func(r model.RepoDescriptor) error { o = append(o, r.Name); return nil }, opts...)
				return
			}},
		},
		"bundles": {
			{"ListBundles", func(lw *listWorld) []string { return lw.bundles }, func(lw *listWorld, st context2.Stores) (o []string, err error) {
				bs, err := core.ListBundles("r", st, opts...)
				for _, b := range bs {
					o = append(o, b.ID)
				}
				return
			}},
			{"ListBundlesApply", func(lw *listWorld) []string { return lw.bundles }, func(lw *listWorld, st context2.Stores) (o []string, err error) {
				err = core.ListBundlesApply("r", st, func(b model.BundleDescriptor) error { o = append(o, b.ID); return nil }, opts...)
				return
			}},
		},
		"labels": {
			{"ListLabels", func(lw *listWorld) []string { return lw.labels }, func(lw *listWorld, st context2.Stores) (o []string, err error) {
				ls, err := core.ListLabels("r", st, opts...)
				for _, l := range ls {
					o = append(o, l.Name)
				}
				return
			}},
			{"ListLabelsApply", func(lw *listWorld) []string { return lw.labels }, func(lw *listWorld, st context2.Stores) (o []string, err error) {
				err = core.ListLabelsApply("r", st, func(l model.LabelDescriptor) error { o = append(o, l.Name); return nil }, opts...)
				return
			}},
			{"ListLabels(prefix v)", func(lw *listWorld) []string { return []string{"v1", "v1.1", "v2"} }, func(lw *listWorld, st context2.Stores) (o []string, err error) {
				ls, err := core.ListLabels("r", st, append([]core.Option{core.WithLabelPrefix("v")}, opts...)...)
				for _, l := range ls {
					o = append(o, l.Name)
				}
				return
			}},
		},
		"diamonds": {
			{"ListDiamonds", func(lw *listWorld) []string { return lw.diamonds }, func(lw *listWorld, st context2.Stores) (o []string, err error) {
				ds, err := core.ListDiamonds("r", st, opts...)
				for _, d := range ds {
					o = append(o, d.DiamondID)
				}
				return
			}},
		},
		"splits": {
			{"ListSplits", func(lw *listWorld) []string { return lw.splits }, func(lw *listWorld, st context2.Stores) (o []string, err error) {
				ss, err := core.ListSplits("r", lw.diamonds[0], st, opts...)
				for _, s := range ss {
					o = append(o, s.SplitID)
				}
				return
			}},
		},
	}
	gates := map[string]func(string, string) bool{"meta": allCalls, "vmeta": allCalls}
	for _, kind := range kinds {
		for _, l := range all[kind] {
			l := l
			sc := &lib.Scenario{Name: "listing-under-fault:" + l.name}
			sc.Setup = func(x *lib.Exec) { x.Data["lw"] = mkListWorld() }
			sc.Phases = [][]lib.ClientFn{{func(x *lib.Exec, id int) error {
				lw := x.Data["lw"].(*listWorld)
				got, err := l.list(lw, lw.w.Gated(x, id, gates))
				x.Data["got"] = got
				return err
			}}}
			sc.Faults = transientFaults(0)
			sc.Final = func(x *lib.Exec) {
				lw := x.Data["lw"].(*listWorld)
				site := faultClass(x)
				if x.Hung {
					x.Violate(prop+"|listing-under-fault|hang|"+l.name, "listing never returned; fault "+site)
					return
				}
				err := x.ClientErr[0]
				x.SetOutcome(fmt.Sprintf("%s;%s", site, errTag(err)))
				if err != nil {
					if site == "none" {
						x.Violate(prop+"|listing-under-fault|error-without-fault|"+l.name, err.Error())
					}
					return // the caller is told
				}
				got, _ := x.Data["got"].([]string)
				g := append([]string(nil), got...)
				w := append([]string(nil), l.want(lw)...)
				sort.Strings(g)
				sort.Strings(w)
				if strings.Join(g, ",") != strings.Join(w, ",") {
					x.Violate(fmt.Sprintf("%s|listing-under-fault|success-with-wrong-result|%s|fault=%s", prop, l.name, site),
						fmt.Sprintf("%s reported success under %s but returned %d of %d objects: got %v, existing %v", l.name, site, len(g), len(w), g, w))
				}
			}
			e := &lib.Explorer{Sc: sc, PreemptBound: 0, FaultBound: 1, MaxExecs: 20000, Budget: 5 * time.Minute}
			e.Explore(t, rep)
			rep.Set("executions:"+sc.Name, e.Execs)
		}
	}
}
