package props

import (
	"bytes"
	"context"
	"fmt"
	"github.com/segmentio/ksuid"
	"sort"
	"strings"
	"sync"
	"testing"

	"github.com/oneconcern/datamon/pkg/core"
	"github.com/oneconcern/datamon/pkg/storage"
	"github.com/oneconcern/datamon/pkg/storage/localfs"
	"github.com/spf13/afero"
	"verif/harness/lib"
)

// C05 — bundle diff and in-place update are exact (E2: all 729 ordered pairs of trees over 3 paths x {absent,c1,c2}).

var c05paths = []string{"+p", "q", "d/r"} // "+p" sorts before ".datamon/", the others after
var c05contents = [][]byte{nil, []byte("content-1"), pattern("rep", 150, 64)}

func c05tree(n int) map[string][]byte {
	t := map[string][]byte{}
	for i, p := range c05paths {
		if v := n % 3; v != 0 {
			t[p] = c05contents[v]
		}
		n /= 3
		_ = i
	}
	return t
}

func c05treeDesc(t map[string][]byte) string {
	var parts []string
	for _, p := range c05paths {
		if d, ok := t[p]; ok {
			c := "c1"
			if len(d) > 20 {
				c = "c2"
			}
			parts = append(parts, p+"="+c)
		}
	}
	return "{" + strings.Join(parts, ",") + "}"
}

func TestC05(t *testing.T) {
	rep := lib.NewReport("C05", "exploration")
	defer rep.Finish(t)
	rep.Rule = "trees = all maps from {+p (sorts before .datamon), q, d/r} to {absent,c1,c2} (27); ALL 729 ordered pairs (A,B) (identical - the target is then a second bundle holding the same tree -, disjoint, same path same/different content, same content under another path, empty either side): core.Diff (archive vs archive, local copy vs archive, local copy vs local copy, archive vs local copy) = set computed from the two maps, each path once with the right type and entries; core.Update(target=B, local copy of A) leaves the destination (data files and .datamon metadata) byte-identical to a fresh Publish of B; destination stores: map store and localfs; a sync loop in which ONE remote handle (retargeted through its BundleID field) and one local copy follow a chain through all 27 trees with the empty tree in between; plus, for A != B, the history 'download X (tree A), delete X, upload B under the preserved ID X, diff and update the old copy'; distinct = distinct (A,B) pairs"
	L := 64
	w := NewWorld()
	w.Blob.NoJournal = true
	st := w.Stores()
	if err := mkRepo(st, "r"); err != nil {
		t.Fatal(err)
	}
	ids := make([]string, 27)
	for n := 0; n < 27; n++ {
		b, err := uploadFiles(st, "r", c05tree(n), L, 0)
		if err != nil {
			t.Fatal(err)
		}
		ids[n] = b.BundleID
	}
	// the target of a pair (A, A) is a SECOND bundle holding the same tree (same entries, another ID, message and time)
	ids2 := make([]string, 27)
	for n := 0; n < 27; n++ {
		b, err := uploadFiles(st, "r", c05tree(n), L, 0, core.BundleDescriptor(newBundleDesc(L, "the same tree committed again")))
		if err != nil {
			t.Fatal(err)
		}
		ids2[n] = b.BundleID
	}
	target := func(a, b int) string {
		if a == b {
			return ids2[b]
		}
		return ids[b]
	}
	newDest := func(local bool) storage.Store {
		if local {
			m := newSafeMemMapFs()
			_ = m.MkdirAll("/base", 0o755)
			return localfs.New(afero.NewBasePathFs(m, "/base"), localfs.WithRetry(false), localfs.WithLogger(nopLogger))
		}
		d := lib.NewMemStore("dest")
		d.NoCRC = true
		return d
	}
	var wg sync.WaitGroup
	sem := make(chan struct{}, 16)
	for a := 0; a < 27; a++ {
		for b := 0; b < 27; b++ {
			wg.Add(1)
			sem <- struct{}{}
			go func(a, b int) {
				defer wg.Done()
				defer func() { <-sem }()
				A, B := c05tree(a), c05tree(b)
				desc := fmt.Sprintf("A=%s B=%s", c05treeDesc(A), c05treeDesc(B))
				rp := map[string]interface{}{"A": c05treeDesc(A), "B": c05treeDesc(B)}
				// expected diff
				want := map[string]string{}
				for p, d := range A {
					if d2, ok := B[p]; !ok {
						want[p] = "D"
					} else if !bytes.Equal(d, d2) {
						want[p] = "U"
					}
				}
				for p := range B {
					if _, ok := A[p]; !ok {
						want[p] = "A"
					}
				}
				shape := fmt.Sprintf("adds=%v|dels=%v|updates=%v", strings.Contains(fmt.Sprint(want), "A"), strings.Contains(fmt.Sprint(want), "D"), strings.Contains(fmt.Sprint(want), "U"))
				checkDiff := func(kind string, ex, ad *core.Bundle) {
					guard(rep, "C05|diff|"+kind, func() string { return desc }, rp, func() {
						diff, err := core.Diff(context.Background(), ex, ad)
						rep.Eval(1)
						if err != nil {
							rep.Violate("C05|diff-error|"+kind, desc+": "+err.Error(), rp)
							return
						}
						got := map[string]string{}
						for _, e := range diff.Entries {
							if _, dup := got[e.Name]; dup {
								rep.Violate("C05|diff-path-listed-twice|"+kind, desc+": "+e.Name, rp)
							}
							got[e.Name] = e.Type.String()
							switch e.Type {
							case core.DiffEntryTypeAdd:
								if e.Additional.NameWithPath != e.Name || e.Additional.Hash != refKey(B[e.Name], L) {
									rep.Violate("C05|diff-entry-content|"+kind, fmt.Sprintf("%s: add %q carries %+v", desc, e.Name, e.Additional), rp)
								}
							case core.DiffEntryTypeDel:
								if e.Existing.NameWithPath != e.Name || e.Existing.Hash != refKey(A[e.Name], L) {
									rep.Violate("C05|diff-entry-content|"+kind, fmt.Sprintf("%s: del %q carries %+v", desc, e.Name, e.Existing), rp)
								}
							case core.DiffEntryTypeDif:
								if e.Existing.Hash != refKey(A[e.Name], L) || e.Additional.Hash != refKey(B[e.Name], L) {
									rep.Violate("C05|diff-entry-content|"+kind, fmt.Sprintf("%s: update %q carries %+v / %+v", desc, e.Name, e.Existing, e.Additional), rp)
								}
							}
						}
						if fmt.Sprint(got) != fmt.Sprint(want) {
							rep.Violate("C05|diff-wrong|"+kind+"|"+shape, fmt.Sprintf("%s: diff %v want %v", desc, got, want), rp)
						}
					})
				}
				checkDiff("archive-archive",
					core.NewBundle(core.Repo("r"), core.ContextStores(st), core.BundleID(ids[a]), core.Logger(nopLogger)),
					core.NewBundle(core.Repo("r"), core.ContextStores(st), core.BundleID(target(a, b)), core.Logger(nopLogger)))
				for _, local := range []bool{false, true} {
					kind := "mapstore"
					if local {
						kind = "localfs"
					}
					dest := newDest(local)
					if _, err := downloadBundle(st, "r", ids[a], dest, 0); err != nil {
						rep.Violate("C05|setup-download-error", desc+": "+err.Error(), rp)
						continue
					}
					checkDiff("local-archive|"+kind,
						core.NewBundle(core.ConsumableStore(dest), core.Logger(nopLogger)),
						core.NewBundle(core.Repo("r"), core.ContextStores(st), core.BundleID(target(a, b)), core.Logger(nopLogger)))
					// the other bundle given as a local copy too, on either side
					if dest2 := newDest(local); true {
						if _, err := downloadBundle(st, "r", target(a, b), dest2, 0); err != nil {
							rep.Violate("C05|setup-download-error", desc+": "+err.Error(), rp)
						} else {
							checkDiff("local-local|"+kind,
								core.NewBundle(core.ConsumableStore(dest), core.Logger(nopLogger)),
								core.NewBundle(core.ConsumableStore(dest2), core.Logger(nopLogger)))
							checkDiff("archive-local|"+kind,
								core.NewBundle(core.Repo("r"), core.ContextStores(st), core.BundleID(ids[a]), core.Logger(nopLogger)),
								core.NewBundle(core.ConsumableStore(dest2), core.Logger(nopLogger)))
						}
					}
					guard(rep, "C05|update|"+kind, func() string { return desc }, rp, func() {
						src := core.NewBundle(core.Repo("r"), core.ContextStores(st), core.BundleID(target(a, b)), core.Logger(nopLogger))
						dst := core.NewBundle(core.ConsumableStore(dest), core.Logger(nopLogger))
						err := core.Update(context.Background(), src, dst)
						rep.Eval(1)
						if err != nil {
							rep.Violate("C05|update-error|"+kind+"|"+shape, desc+": "+err.Error(), rp)
							return
						}
						fresh := newDest(local)
						if _, err := downloadBundle(st, "r", target(a, b), fresh, 0); err != nil {
							rep.Violate("C05|fresh-download-error", desc+": "+err.Error(), rp)
							return
						}
						got, _ := storeFiles(dest)
						wantFiles, _ := storeFiles(fresh)
						gk, wk := keysOf(got), keysOf(wantFiles)
						if strings.Join(gk, ",") != strings.Join(wk, ",") {
							var stale []string
							for _, k := range gk {
								if _, ok := wantFiles[k]; !ok {
									stale = append(stale, k)
								}
							}
							what := "files-missing"
							if len(stale) > 0 {
								what = "stale-files-left"
								for _, k := range stale {
									if strings.HasPrefix(k, ".datamon/") {
										what = "previous-bundle-metadata-left"
									}
								}
							}
							rep.Violate("C05|update-"+what+"|"+kind+"|"+shape, fmt.Sprintf("%s: destination has %v, fresh download of B has %v", desc, gk, wk), rp)
							return
						}
						for _, k := range wk {
							if !bytes.Equal(got[k], wantFiles[k]) {
								rep.Violate("C05|update-file-differs|"+kind+"|"+shape, fmt.Sprintf("%s: %q differs from a fresh download of B", desc, k), rp)
							}
						}
					})
				}
				// a history that re-uses an identifier: the local copy holds bundle X (tree A); X is deleted and tree B is
				// uploaded under the same preserved ID; diff and update of the old copy must still bring it to B
				if a != b {
					guard(rep, "C05|recreated-id", func() string { return desc }, rp, func() {
						repo := fmt.Sprintf("x%d-%d", a, b)
						if err := mkRepo(st, repo); err != nil {
							panic(err)
						}
						kid, _ := ksuid.NewRandom()
						id := kid.String()
						if _, err := uploadFiles(st, repo, A, L, 0, core.BundleID(id)); err != nil {
							rep.Violate("C05|recreated-id|setup-upload-error", desc+": "+err.Error(), rp)
							return
						}
						dest := newDest(false)
						if _, err := downloadBundle(st, repo, id, dest, 0); err != nil {
							rep.Violate("C05|recreated-id|setup-download-error", desc+": "+err.Error(), rp)
							return
						}
						if err := core.DeleteBundle(repo, st, id); err != nil {
							rep.Violate("C05|recreated-id|delete-error", desc+": "+err.Error(), rp)
							return
						}
						if _, err := uploadFiles(st, repo, B, L, 0, core.BundleID(id)); err != nil {
							rep.Violate("C05|recreated-id|re-upload-with-preserved-id-fails", desc+": "+err.Error(), rp)
							return
						}
						diff, err := core.Diff(context.Background(), core.NewBundle(core.ConsumableStore(dest), core.Logger(nopLogger)),
							core.NewBundle(core.Repo(repo), core.ContextStores(st), core.BundleID(id), core.Logger(nopLogger)))
						rep.Eval(1)
						if err != nil {
							rep.Violate("C05|recreated-id|diff-error", desc+": "+err.Error(), rp)
						} else {
							got := map[string]string{}
							for _, e := range diff.Entries {
								got[e.Name] = e.Type.String()
							}
							if fmt.Sprint(got) != fmt.Sprint(want) {
								rep.Violate("C05|recreated-id|diff-wrong|"+shape, fmt.Sprintf("%s (bundle ID re-used for B after the bundle holding A was deleted): diff %v want %v", desc, got, want), rp)
							}
						}
						err = core.Update(context.Background(), core.NewBundle(core.Repo(repo), core.ContextStores(st), core.BundleID(id), core.Logger(nopLogger)),
							core.NewBundle(core.ConsumableStore(dest), core.Logger(nopLogger)))
						rep.Eval(1)
						if err != nil {
							rep.Violate("C05|recreated-id|update-error|"+shape, desc+": "+err.Error(), rp)
							return
						}
						fresh := newDest(false)
						if _, err := downloadBundle(st, repo, id, fresh, 0); err != nil {
							rep.Violate("C05|recreated-id|fresh-download-error", desc+": "+err.Error(), rp)
							return
						}
						got, _ := storeFiles(dest)
						wantFiles, _ := storeFiles(fresh)
						if strings.Join(keysOf(got), ",") != strings.Join(keysOf(wantFiles), ",") {
							rep.Violate("C05|recreated-id|update-differs-from-fresh-download|"+shape, fmt.Sprintf("%s: destination has %v, fresh download of B has %v", desc, keysOf(got), keysOf(wantFiles)), rp)
							return
						}
						for k := range wantFiles {
							if !bytes.Equal(got[k], wantFiles[k]) {
								rep.Violate("C05|recreated-id|update-file-differs|"+shape, fmt.Sprintf("%s: %q differs from a fresh download of B", desc, k), rp)
								return
							}
						}
					})
				}
				rep.Outcome(desc)
			}(a, b)
		}
	}
	wg.Wait()
	// a "sync loop": ONE remote handle, retargeted through its exported BundleID field, and one local copy follow a chain
	// of bundles (every tree once, the empty tree between non-empty ones): stale state in a reused handle must not leak
	// from one target to the next
	{
		chain := []int{}
		for n := 1; n < 27; n++ {
			chain = append(chain, n)
		}
		chain = append(chain, 0, 13, 0, 5, 5, 26)
		dest := newDest(false)
		if _, err := downloadBundle(st, "r", ids[chain[0]], dest, 0); err != nil {
			t.Fatal(err)
		}
		remote := core.NewBundle(core.Repo("r"), core.ContextStores(st), core.Logger(nopLogger))
		cur := chain[0]
		for _, next := range chain[1:] {
			A, B := c05tree(cur), c05tree(next)
			desc := fmt.Sprintf("sync loop with one remote handle: step A=%s -> B=%s", c05treeDesc(A), c05treeDesc(B))
			rp := map[string]interface{}{"A": c05treeDesc(A), "B": c05treeDesc(B), "reused_remote_handle": true}
			want := map[string]string{}
			for p, d := range A {
				if d2, ok := B[p]; !ok {
					want[p] = "D"
				} else if !bytes.Equal(d, d2) {
					want[p] = "U"
				}
			}
			for p := range B {
				if _, ok := A[p]; !ok {
					want[p] = "A"
				}
			}
			remote.BundleID = ids[next]
			ok := true
			guard(rep, "C05|sync-loop", func() string { return desc }, rp, func() {
				diff, err := core.Diff(context.Background(), core.NewBundle(core.ConsumableStore(dest), core.Logger(nopLogger)), remote)
				rep.Eval(1)
				if err != nil {
					rep.Violate("C05|sync-loop|diff-error", desc+": "+err.Error(), rp)
				} else {
					got := map[string]string{}
					for _, e := range diff.Entries {
						got[e.Name] = e.Type.String()
					}
					if fmt.Sprint(got) != fmt.Sprint(want) {
						rep.Violate("C05|sync-loop|diff-wrong", fmt.Sprintf("%s: diff %v want %v", desc, got, want), rp)
					}
				}
				if err := core.Update(context.Background(), remote, core.NewBundle(core.ConsumableStore(dest), core.Logger(nopLogger))); err != nil {
					rep.Violate("C05|sync-loop|update-error", desc+": "+err.Error(), rp)
					ok = false
					return
				}
				rep.Eval(1)
				fresh := newDest(false)
				if _, err := downloadBundle(st, "r", ids[next], fresh, 0); err != nil {
					rep.Violate("C05|sync-loop|fresh-download-error", desc+": "+err.Error(), rp)
					ok = false
					return
				}
				got, _ := storeFiles(dest)
				wantFiles, _ := storeFiles(fresh)
				if strings.Join(keysOf(got), ",") != strings.Join(keysOf(wantFiles), ",") {
					rep.Violate("C05|sync-loop|update-differs-from-fresh-download", fmt.Sprintf("%s: destination has %v, fresh download of B has %v", desc, keysOf(got), keysOf(wantFiles)), rp)
					ok = false
					return
				}
				for k := range wantFiles {
					if !bytes.Equal(got[k], wantFiles[k]) {
						rep.Violate("C05|sync-loop|update-file-differs", fmt.Sprintf("%s: %q differs from a fresh download of B", desc, k), rp)
						ok = false
						return
					}
				}
			})
			if !ok {
				break
			}
			cur = next
		}
	}
	rep.Sample(map[string]interface{}{"A": c05treeDesc(c05tree(5)), "B": c05treeDesc(c05tree(22))})
	sort.Strings(ids)
}
