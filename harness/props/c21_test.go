package props

import (
	"fmt"
	"reflect"
	"sort"
	"strconv"
	"strings"
	"testing"

	"github.com/oneconcern/datamon/pkg/sidecar/param"
	"gopkg.in/yaml.v2"
	"verif/harness/lib"
)

// C21 — sidecar parameters survive environment-variable encoding (E2: exhaustive over the abstraction that drives the
// separator choice: which characters >= '0' occur in the values).

// c21decode is the reference decoder of the documented format, with the shipped shell decoder's constraints
// (hack/fuse-demo/wrap_datamon.sh deserialize_dict): separators are the first two characters, '.' is not a valid
// separator, empty items are dropped, the key is what precedes the first kv separator, the value is the second field,
// an item without kv separator is a flag set to "true".
func c21decode(s string) (map[string]string, error) {
	r := []rune(s)
	if len(r) < 2 {
		return nil, fmt.Errorf("too short")
	}
	item, kv := r[0], r[1]
	if item == '.' || kv == '.' {
		return nil, fmt.Errorf("'.' is not a valid parameter separator")
	}
	out := map[string]string{}
	for _, it := range strings.Split(string(r[2:]), string(item)) {
		if it == "" {
			continue
		}
		fields := strings.Split(it, string(kv))
		if len(fields) == 1 {
			out[fields[0]] = "true"
		} else {
			out[fields[0]] = fields[1]
		}
	}
	return out, nil
}

// params are built through YAML because the bundle / database element types are unexported.
func c21fuse(sleep bool, c, b, a string, bundles []map[string]string) param.FUSEParams {
	doc := map[string]interface{}{
		"globalOpts": map[string]interface{}{"sleepInsteadOfExit": sleep, "coordPoint": c, "configBucketName": b, "contextName": a},
		"bundles":    bundles,
	}
	raw, _ := yaml.Marshal(doc)
	var p param.FUSEParams
	if err := yaml.Unmarshal(raw, &p); err != nil {
		panic(err)
	}
	return p
}

func c21pg(sleep, ignore bool, c string, dbs []map[string]interface{}) param.PGParams {
	doc := map[string]interface{}{
		"globalOpts": map[string]interface{}{"sleepInsteadOfExit": sleep, "ignorePGVersionMismatch": ignore, "coordPoint": c},
		"databases":  dbs,
	}
	raw, _ := yaml.Marshal(doc)
	var p param.PGParams
	if err := yaml.Unmarshal(raw, &p); err != nil {
		panic(err)
	}
	return p
}

var c21bundleKeys = map[string]string{"srcPath": "sp", "srcRepo": "sr", "srcLabel": "sl", "srcBundle": "sb", "destPath": "dp", "destRepo": "dr", "destMessage": "dm", "destLabel": "dl", "destBundleID": "dif"}
var c21dbKeys = map[string]string{"destMessage": "m", "destLabel": "l", "destRepo": "r", "srcLabel": "sl", "srcRepo": "sr", "srcBundle": "sb"}

func c21sepClass(s string) string {
	r := []rune(s)
	if len(r) < 2 {
		return "short"
	}
	cls := func(c rune) string {
		switch {
		case c >= '0' && c <= '9':
			return "digit"
		case c >= 'a' && c <= 'z' || c >= 'A' && c <= 'Z':
			return "letter"
		case c > 127:
			return "non-ascii"
		default:
			return "punct"
		}
	}
	return cls(r[0]) + "/" + cls(r[1])
}

func TestC21(t *testing.T) {
	rep := lib.NewReport("C21", "exploration")
	defer rep.Finish(t)
	rep.Rule = "for every pair g1<g2 of characters in '0'..'~' (+ one non-ASCII): values holding exactly the characters of ['0',g2) except g1 (for one pair in three wrapped in multi-byte characters, for another third in white space) (which drives the separator choice to (g1,g2) unless fixed strings interfere), placed in each parameter field in turn x sleep flag x 0..2 bundles/databases (+ a bundle without any optional parameter) x optional fields empty or not; FUSE and PG encoders; oracle: encoding fails, or the reference decoder (documented format + shell decoder constraints) returns exactly the non-empty parameters and the flag; distinct = distinct encoded strings"
	var chars []rune
	for c := '0'; c <= '~'; c++ {
		chars = append(chars, c)
	}
	chars = append(chars, 'é')
	step := 1
	if !lib.Thorough() {
		step = 3
	}
	check := func(kind, env string, enc map[string]string, err error, want map[string]map[string]string, rp interface{}) {
		rep.Eval(1)
		if err != nil {
			rep.Add("encodings_refused", 1)
			return
		}
		for name, w := range want {
			s, ok := enc[name]
			if !ok {
				rep.Violate("C21|missing-env-var|"+kind, fmt.Sprintf("no env var %s in %v", name, enc), rp)
				continue
			}
			rep.Outcome(s)
			got, derr := c21decode(s)
			if derr != nil {
				rep.Violate("C21|undecodable|"+kind+"|seps="+c21sepClass(s), fmt.Sprintf("%s=%q: %v", name, s, derr), rp)
				continue
			}
			if !reflect.DeepEqual(got, w) {
				var diff []string
				for k, v := range w {
					if got[k] != v {
						diff = append(diff, fmt.Sprintf("%s: want %q got %q", k, v, got[k]))
					}
				}
				for k, v := range got {
					if _, ok := w[k]; !ok {
						diff = append(diff, fmt.Sprintf("%s: unexpected %q", k, v))
					}
				}
				sort.Strings(diff)
				rep.Violate("C21|decodes-differently|"+kind+"|seps="+c21sepClass(s), fmt.Sprintf("%s=%q decodes with separators %q to %v; differences: %v", name, s, string([]rune(s)[:2]), got, diff), rp)
			}
		}
		if len(enc) != len(want) {
			rep.Violate("C21|extra-env-var|"+kind, fmt.Sprintf("%v vs wanted names %v", enc, want), rp)
		}
	}
	for i := 0; i < len(chars); i += step {
		for j := i + 1; j < len(chars); j += step {
			g1, g2 := chars[i], chars[j]
			var sb strings.Builder
			for _, c := range chars {
				if c >= g2 {
					break
				}
				if c != g1 {
					sb.WriteRune(c)
				}
			}
			V := sb.String()
			if V == "" {
				V = "~" // both separators at the very start of the range
			}
			switch (i/step + j/step) % 3 {
			case 0:
				V = "é" + V + "結" // multi-byte characters around the driving value: they are outside the separator range
			case 1:
				V = " " + V + " \n" // white space at both ends (below the separator range): part of the value
			}
			rp := map[string]interface{}{"g1": string(g1), "g2": string(g2), "value": V}
			// ---- FUSE
			for _, sleep := range []bool{false, true} {
				for pos := 0; pos < 3+len(c21bundleKeys); pos++ {
					for nb := 0; nb <= 2; nb++ {
						if pos >= 3 && nb == 0 {
							continue
						}
						glob := []string{"x", "y", "z"}
						if pos < 3 {
							glob[pos] = V
						}
						var bundles []map[string]string
						want := map[string]map[string]string{"dm_fuse_opts": {"c": glob[0], "b": glob[1], "a": glob[2]}}
						if sleep {
							want["dm_fuse_opts"]["S"] = "true"
						}
						var bkeys []string
						for k := range c21bundleKeys {
							bkeys = append(bkeys, k)
						}
						sort.Strings(bkeys)
						for b := 0; b < nb; b++ {
							bm := map[string]string{"name": fmt.Sprintf("bd%d", b)}
							w := map[string]string{}
							for ki, k := range bkeys {
								switch {
								case pos >= 3 && ki == pos-3 && b == nb-1:
									bm[k] = V
								case (ki+b)%2 == 0:
									bm[k] = "v" // some optional fields stay empty
								}
								if bm[k] != "" {
									w[c21bundleKeys[k]] = bm[k]
								}
							}
							bundles = append(bundles, bm)
							want["dm_fuse_bd_"+bm["name"]] = w
						}
						if nb == 2 && pos < 3 {
							// a bundle with no optional parameter at all: its variable holds the two separators and nothing else
							bundles = append(bundles, map[string]string{"name": "idle"})
							want["dm_fuse_bd_idle"] = map[string]string{}
						}
						p := c21fuse(sleep, glob[0], glob[1], glob[2], bundles)
						var enc map[string]string
						var err error
						c20try(rep, "C21|fuse-encode", fmt.Sprint(rp), func() { enc, err = param.FUSEParamsToEnvVars(p) })
						check("fuse", "", enc, err, want, rp)
					}
				}
			}
			// ---- PG
			for _, sleep := range []bool{false, true} {
				for _, ign := range []bool{false, true} {
					var dkeys []string
					for k := range c21dbKeys {
						dkeys = append(dkeys, k)
					}
					sort.Strings(dkeys)
					for pos := 0; pos < 1+len(dkeys); pos++ {
						for nd := 0; nd <= 2; nd++ {
							if pos >= 1 && nd == 0 {
								continue
							}
							coord := "x"
							if pos == 0 {
								coord = V
							}
							want := map[string]map[string]string{"dm_pg_opts": {"c": coord, "V": strconv.FormatBool(ign)}}
							if sleep {
								want["dm_pg_opts"]["S"] = "true"
							}
							var dbs []map[string]interface{}
							for d := 0; d < nd; d++ {
								port := []int{5432, 0}[d]
								dm := map[string]interface{}{"name": fmt.Sprintf("db%d", d), "pgPort": port}
								w := map[string]string{"p": strconv.Itoa(port)}
								for ki, k := range dkeys {
									val := ""
									switch {
									case pos >= 1 && ki == pos-1 && d == nd-1:
										val = V
									case (ki+d)%2 == 0:
										val = "v"
									}
									if val != "" {
										dm[k] = val
										w[c21dbKeys[k]] = val
									}
								}
								dbs = append(dbs, dm)
								want["dm_pg_db_"+dm["name"].(string)] = w
							}
							p := c21pg(sleep, ign, coord, dbs)
							var enc map[string]string
							var err error
							c20try(rep, "C21|pg-encode", fmt.Sprint(rp), func() { enc, err = param.PGParamsToEnvVars(p) })
							check("pg", "", enc, err, want, rp)
						}
					}
				}
			}
		}
	}
	rep.Sample(map[string]interface{}{"example_value_for_separators_(A,C)": "0123456789:;<=>?@B"})
}
