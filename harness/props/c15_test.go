package props

import (
	"bytes"
	"context"
	"fmt"
	"os"
	"os/exec"
	"regexp"
	"sort"
	"strings"
	"sync"
	"testing"
	"time"

	"github.com/oneconcern/datamon/pkg/cafs"
	context2 "github.com/oneconcern/datamon/pkg/context"
	"github.com/oneconcern/datamon/pkg/core"
	"github.com/oneconcern/datamon/pkg/model"
	"verif/harness/lib"
)

// C15 — concurrent uploads, downloads and commits do not interfere.
// E1: 2..3 concurrent clients, blob + metadata + vmetadata store calls gated, preemption-bounded DFS; oracle = each
// operation's result equals the result of the same operation run alone from the same initial stores.
// Companion pass (sampling, reported separately): the same bodies free-running under the race detector.

const c15L = 4096 // small enough for multi-leaf files, large enough to keep cafs.New cheap

var (
	// X and Y share file a (already stored by B0: the dedup path), the first leaf of y/prefix (ditto) and file n, whose
	// blobs are in the store of neither: both uploaders write the same NEW blobs concurrently
	c15N  = []byte("new content that both concurrent uploaders store, present in no earlier bundle")
	c15X  = map[string][]byte{"a": pattern("pos", 2*c15L+100, c15L), "x/only": []byte("only in X"), "n": c15N}
	c15Y  = map[string][]byte{"a": pattern("pos", 2*c15L+100, c15L), "y/prefix": pattern("pos", c15L+50, c15L), "y/only": []byte("only in Y"), "n": c15N}
	c15B0 = map[string][]byte{"a": pattern("pos", 2*c15L+100, c15L), "old": []byte("previously committed")}
)

type c15state struct {
	w       *World
	b0      string
	diamond string
	results map[int]string
}

func c15init(withDiamond bool) *c15state {
	w := NewWorld()
	st := w.Stores()
	must := func(err error) {
		if err != nil {
			panic(err)
		}
	}
	must(mkRepo(st, "r"))
	b, err := uploadFiles(st, "r", c15B0, c15L, 0)
	must(err)
	s := &c15state{w: w, b0: b.BundleID, results: map[int]string{}}
	must(setLabel(st, "r", "stable", s.b0))
	if withDiamond {
		dd, err := core.CreateDiamond("r", st, core.DiamondLogger(nopLogger))
		must(err)
		s.diamond = dd.DiamondID
		c15sleep()
		must(splitAddL(st, "r", dd.DiamondID, "s0", map[string][]byte{"s0/file": []byte("from split zero"), "s0/other": c15N}, c15L))
		c15sleep()
		must(splitAddL(st, "r", dd.DiamondID, "s1", map[string][]byte{"s1/file": []byte("from split one"), "a": c15X["a"]}, c15L))
	}
	c15sleep()
	return s
}

// c15sleep separates KSUID seconds under the fake clock; the free-running race pass does not need it.
func c15sleep() {
	if os.Getenv("VERIF_RACE_RUN") == "" {
		time.Sleep(time.Second)
	}
}

func splitAddL(stores context2.Stores, repo, diamondID, splitID string, files map[string][]byte, L int) error {
	s := core.NewSplit(repo, diamondID, stores,
		core.SplitDescriptor(model.NewSplitDescriptor(model.SplitID(splitID), model.SplitContributor(model.Contributor{Name: "v", Email: "v@x.io"}))),
		core.SplitConsumableStore(srcStore(files)), core.SplitLogger(nopLogger), core.SplitConcurrentFileUploads(2))
	s.BundleDescriptor.LeafSize = uint32(L)
	if _, err := core.CreateSplit(repo, diamondID, stores, core.SplitDescriptor(&s.SplitDescriptor), core.SplitLogger(nopLogger)); err != nil {
		return fmt.Errorf("split create: %w", err)
	}
	return s.Upload()
}

func entriesString(stores context2.Stores, repo, id string) (string, error) {
	ents, err := bundleEntries(stores, repo, id)
	if err != nil {
		return "", err
	}
	var l []string
	for n, v := range ents {
		l = append(l, n+"="+v[:10]+v[strings.LastIndex(v, ":"):])
	}
	sort.Strings(l)
	return strings.Join(l, ","), nil
}

// c15op runs one operation and returns a canonical description of its result.
func c15op(kind string, s *c15state, stores context2.Stores) (string, error) {
	switch kind {
	case "uploadX", "uploadY":
		files := c15X
		if kind == "uploadY" {
			files = c15Y
		}
		b, err := uploadFiles(stores, "r", files, c15L, 0, core.ConcurrentFileUploads(2))
		if err != nil {
			return "", err
		}
		e, err := entriesString(s.w.Stores(), "r", b.BundleID)
		return "entries:" + e, err
	case "download":
		dest := lib.NewMemStore("dest")
		dest.NoCRC = true
		if _, err := downloadBundle(stores, "r", s.b0, dest, 0, core.ConcurrentFileDownloads(2)); err != nil {
			return "", err
		}
		var l []string
		for n, d := range dest.Snapshot() {
			if !strings.HasPrefix(n, ".datamon/") {
				l = append(l, fmt.Sprintf("%s:%x", n, lib.Sum8(d)))
			}
		}
		sort.Strings(l)
		return "files:" + strings.Join(l, ","), nil
	case "label":
		if err := setLabel(stores, "r", "moving", s.b0); err != nil {
			return "", err
		}
		id, err := getLabel(s.w.Stores(), "r", "moving")
		return "label->" + map[bool]string{true: "b0", false: id}[id == s.b0], err
	case "split2":
		err := splitAddL(stores, "r", s.diamond, "s2", map[string][]byte{"s2/file": []byte("from split two"), "y/prefix": c15Y["y/prefix"]}, c15L)
		if err != nil {
			return "", err
		}
		sd, err := core.GetSplit("r", s.diamond, "s2", s.w.Stores())
		return fmt.Sprintf("split:%s:%d", sd.State, sd.SplitEntriesFileCount), err
	case "commit":
		bid, err := diamondCommit(stores, "r", s.diamond, model.EnableConflicts)
		if err != nil {
			return "", err
		}
		e, err := entriesString(s.w.Stores(), "r", bid)
		return "entries:" + e, err
	}
	panic(kind)
}

func c15scenario(kinds []string) *lib.Scenario {
	withDiamond := false
	for _, k := range kinds {
		if k == "split2" || k == "commit" {
			withDiamond = true
		}
	}
	sc := &lib.Scenario{Name: strings.Join(kinds, "||")}
	gates := map[string]func(string, string) bool{"meta": allCalls, "vmeta": allCalls, "blob": allCalls}
	// solo results, each from its own copy of the initial stores (computed once: they do not depend on the schedule)
	solo := map[int]string{}
	blobUnion := map[string]bool{}
	// Prepare runs in its own bubble, before the exploration, so that it cannot perturb the executions
	sc.Prepare = func(t *testing.T) {
		lib.Bubble(t, func() {
			for i, k := range kinds {
				s := c15init(withDiamond)
				r, err := c15op(k, s, s.w.Stores())
				if err != nil {
					panic(fmt.Sprintf("solo %s: %v", k, err))
				}
				solo[i] = r
				for _, key := range s.w.Blob.RawKeys() {
					blobUnion[key] = true
				}
			}
		})
	}
	sc.Setup = func(x *lib.Exec) {
		x.Data["solo"] = solo
		x.Data["blobs"] = blobUnion
		x.Data["s"] = c15init(withDiamond)
	}
	var phase []lib.ClientFn
	for i, k := range kinds {
		i, k := i, k
		phase = append(phase, func(x *lib.Exec, id int) error {
			s := x.Data["s"].(*c15state)
			r, err := c15op(k, s, s.w.Gated(x, id, gates))
			s.results[i] = r
			return err
		})
	}
	sc.Phases = [][]lib.ClientFn{phase}
	sc.Final = func(x *lib.Exec) {
		s := x.Data["s"].(*c15state)
		if x.Hung {
			x.Violate("C15|hang|"+sc.Name, "operations never completed")
			return
		}
		solo := x.Data["solo"].(map[int]string)
		var out []string
		for i, k := range kinds {
			if err := x.ClientErr[i]; err != nil {
				x.Violate("C15|operation-fails-when-concurrent|"+k+"|with="+sc.Name, fmt.Sprintf("%s failed: %v", k, err))
				continue
			}
			if s.results[i] != solo[i] {
				x.Violate("C15|result-differs-from-solo-run|"+k+"|with="+sc.Name, fmt.Sprintf("%s concurrent result %q, alone %q", k, s.results[i], solo[i]))
			}
			out = append(out, "ok")
		}
		want := x.Data["blobs"].(map[string]bool)
		got := map[string]bool{}
		for _, key := range s.w.Blob.RawKeys() {
			got[key] = true
			if !want[key] {
				x.Violate("C15|blob-store-has-unexpected-blob|"+sc.Name, key[:12])
			}
		}
		for key := range want {
			if !got[key] {
				x.Violate("C15|blob-store-misses-blob|"+sc.Name, key[:12])
			}
		}
		for _, je := range s.w.Blob.JournalSince(0) {
			if je.Op == "put" && je.Existed && !je.Same {
				x.Violate("C15|existing-blob-changed|"+sc.Name, je.Key[:12])
			}
		}
		// the previously committed bundle and label are untouched
		if e, err := entriesString(s.w.Stores(), "r", s.b0); err != nil || !strings.Contains(e, "old=") {
			x.Violate("C15|committed-bundle-damaged|"+sc.Name, fmt.Sprintf("%q %v", e, err))
		}
		x.SetOutcome(strings.Join(out, ","))
	}
	return sc
}

var raceFuncRe = regexp.MustCompile(`github\.com/oneconcern/datamon/[^\s(]+`)

func TestC15(t *testing.T) {
	rep := lib.NewReport("C15", "model_checking")
	defer rep.Finish(t)
	pb := 2
	if lib.Thorough() {
		pb = 3
	}
	rep.Rule = fmt.Sprintf("2..3 concurrent clients out of {upload X, upload Y (shares a file and a leaf with X), download of a committed bundle, label set, split upload, diamond commit}, internal concurrency 2, every blob / metadata / vmetadata store call a scheduling point, all interleavings with <=%d preemptions; oracle (differential): every operation succeeds and its result equals the result of the same operation run alone from the same initial stores; blob store = union of the solo runs, no existing blob rewritten; companion pass (sampling, not exhaustive): the same bodies, and 8 readers doing ReadAt over one cafs.Fs whose leaf cache holds a single leaf, free-running under the Go race detector; distinct = distinct (scenario, outcome)", pb)
	combos := [][]string{{"uploadX", "uploadY"}, {"uploadX", "download"}, {"uploadX", "label", "download"}, {"split2", "uploadX"}, {"commit", "uploadY"}, {"split2", "download", "label"}}
	if lib.Thorough() {
		combos = append(combos, []string{"uploadX", "uploadY", "download"}, []string{"commit", "uploadX", "label"})
	}
	var scs []*lib.Scenario
	for _, c := range combos {
		scs = append(scs, c15scenario(c))
	}
	stall := 4 * time.Minute
	if lib.Thorough() {
		stall = 60 * time.Minute
	}
	parent := lib.RunCases(t, rep, "TestC15", len(scs), 0, stall, func(i int) {
		b := pb
		if !lib.Thorough() && i > 0 {
			b = 1 // quick: 2 preemptions for the two overlapping uploads, 1 for the other scenarios
		}
		e := &lib.Explorer{Sc: scs[i], PreemptBound: b, MaxExecs: 400000, Budget: stall - 2*time.Minute}
		e.Explore(t, rep)
		rep.Set("executions:"+scs[i].Name, e.Execs)
		rep.Set("max_steps:"+scs[i].Name, e.MaxSteps)
		rep.Set("preemption_bound:"+scs[i].Name, b)
	}, func(i int, how, output string) {
		rep.Violate("C15|worker-"+strings.SplitN(how, ":", 2)[0]+"|"+scs[i].Name, fmt.Sprintf("scenario %s: worker %s: %s", scs[i].Name, how, output), nil)
	})
	if !parent {
		return
	}
	// companion race pass
	bin := os.Getenv("VERIF_RACE_BIN")
	if bin == "" {
		rep.Set("race_pass", "not run (no race-enabled binary provided)")
		return
	}
	iterations, races := 0, 0
	outs := map[int][]byte{}
	var omu sync.Mutex
	var owg sync.WaitGroup
	for _, procs := range []int{1, 4, 16} {
		owg.Add(1)
		go func(procs int) {
			defer owg.Done()
			cmd := exec.Command(bin, "-test.run", "^TestC15Race$", "-test.count", "1", "-test.timeout", "4m")
			cmd.Env = append(os.Environ(), fmt.Sprintf("GOMAXPROCS=%d", procs), "GORACE=halt_on_error=0", "VERIF_RACE_RUN=1")
			out, _ := cmd.CombinedOutput()
			omu.Lock()
			outs[procs] = out
			omu.Unlock()
		}(procs)
	}
	owg.Wait()
	for _, procs := range []int{1, 4, 16} {
		out := outs[procs]
		iterations++
		if idx := bytes.Index(out, []byte("WARNING: DATA RACE")); idx >= 0 {
			races++
			report := string(out[idx:min2(idx+6000, len(out))])
			fns := raceFuncRe.FindAllString(report, -1)
			seen := map[string]bool{}
			var top []string
			for _, f := range fns {
				f = strings.TrimPrefix(f, "github.com/oneconcern/datamon/")
				if !seen[f] && len(top) < 2 && !strings.Contains(f, "verif") {
					seen[f] = true
					top = append(top, f)
				}
			}
			rep.Violate("C15|data-race|"+strings.Join(top, "|"), fmt.Sprintf("GOMAXPROCS=%d: %s", procs, lib.Tail(report, 3000)), map[string]interface{}{"gomaxprocs": procs})
		} else if idx := bytes.Index(out, []byte("C15-READ-MISMATCH")); idx >= 0 {
			races++
			rep.Violate("C15|concurrent-readat|differs-from-a-lone-read", fmt.Sprintf("GOMAXPROCS=%d: %s", procs, lib.Tail(string(out[idx:min2(idx+600, len(out))]), 600)), map[string]interface{}{"gomaxprocs": procs})
		} else if !bytes.Contains(out, []byte("ok")) && !bytes.Contains(out, []byte("PASS")) {
			rep.Note("race pass run did not complete: " + lib.Tail(string(out), 400))
		}
	}
	rep.Set("race_pass", map[string]interface{}{"runs": iterations, "runs_with_race_reports": races, "note": "sampling companion pass, not part of the exhaustive claim"})
}

// TestC15Race is the free-running body for the race detector (only meaningful in a -race build).
func TestC15Race(t *testing.T) {
	if os.Getenv("VERIF_RACE_RUN") == "" {
		t.Skip("companion pass body; run through TestC15")
	}
	c15raceReaders(t)
	rounds := []int{2, 8, 16}
	if lib.Thorough() {
		rounds = []int{2, 4, 8, 16, 16, 16, 16, 16}
	}
	for _, n := range rounds {
		s := c15init(true)
		kinds := []string{"uploadX", "uploadY", "download", "label", "uploadX", "download", "uploadY", "split2", "download", "label", "uploadX", "uploadY", "download", "label", "commit", "download"}
		var wg sync.WaitGroup
		for i := 0; i < n; i++ {
			wg.Add(1)
			go func(k string) {
				defer wg.Done()
				_, _ = c15op(k, s, s.w.Stores())
			}(kinds[i%len(kinds)])
		}
		wg.Wait()
	}
}

// c15raceReaders: 8 readers doing ReadAt of whole leaves over one cafs.Fs whose leaf cache holds a single leaf (every read
// evicts and recycles a buffer another reader may still be served from). Free-running, for the race detector; a read
// returning other bytes than a lone read prints a marker the parent turns into a violation.
func c15raceReaders(t *testing.T) {
	const L = 1 << 20
	blobs := lib.NewMemStore("blob")
	blobs.NoJournal = true
	fs, err := cafs.New(cafs.LeafSize(L), cafs.Backend(blobs), cafs.CacheSize(L))
	if err != nil {
		t.Fatal(err)
	}
	ctx := context.Background()
	var roots []cafs.Key
	var want [][]byte
	for f := 0; f < 3; f++ {
		content := pattern(fmt.Sprintf("file%d", f), 3*L, L)
		res, err := fs.Put(ctx, bytes.NewReader(content))
		if err != nil {
			t.Fatal(err)
		}
		roots, want = append(roots, res.Key), append(want, content)
	}
	var wg sync.WaitGroup
	for g := 0; g < 8; g++ {
		wg.Add(1)
		go func(g int) {
			defer wg.Done()
			got := make([]byte, L)
			for i := 0; i < 40; i++ {
				f, l := 0, 0
				if (g+i)%2 == 0 {
					f, l = (g*7+i)%3, (g+i*5)%3
				}
				rdr, err := fs.GetAt(ctx, roots[f])
				if err != nil {
					fmt.Printf("C15-READ-MISMATCH GetAt: %v\n", err)
					return
				}
				n, err := rdr.ReadAt(got, int64(l)*L)
				if err != nil || n != L || !bytes.Equal(got, want[f][l*L:(l+1)*L]) {
					fmt.Printf("C15-READ-MISMATCH reader %d round %d: ReadAt(file %d, leaf %d) = %d bytes, %v; bytes equal to a lone read: %v\n", g, i, f, l, n, err, bytes.Equal(got, want[f][l*L:(l+1)*L]))
					return
				}
			}
		}(g)
	}
	wg.Wait()
}
