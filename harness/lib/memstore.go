// Package lib holds the verification engines: a reference in-memory object store, the
// controlled-execution explorer (E1), the bounded-exhaustive sequence explorer (E2) and the
// evidence / violation plumbing.
package lib

import (
	"bytes"
	"context"
	"crypto/sha256"
	"encoding/hex"
	"errors"
	"fmt"
	"hash/crc32"
	"io"
	"sort"
	"strings"
	"sync"
	"time"

	"github.com/oneconcern/datamon/pkg/storage"
	storagestatus "github.com/oneconcern/datamon/pkg/storage/status"
)

// MemStore is the reference object store: a map with the contract datamon is written
// against (pkg/storage/gcs): create-if-absent Put, ErrNotExists on missing keys, sorted and
// delimiter-collapsed paginated listings whose page token is the next candidate key.
type MemStore struct {
	Name string

	mu      sync.Mutex
	objs    map[string]*Obj
	Journal []JournalEntry
	// NoJournal disables write journaling (big enumerations).
	NoJournal bool
	// ReadChunks: number of chunks object bytes are delivered in (>=1) before a separate (0, EOF).
	ReadChunks int
	// NoCRC makes GetAttr report CRC32C==0 (like localfs)
	NoCRC bool
	// EOFWithData makes readers return io.EOF together with the last bytes (both shapes are legal io.Reader behaviour)
	EOFWithData bool
	// DeleteMissingOK makes Delete of a key that does not exist succeed, as S3 and the local file system store do
	// (GCS reports "not found")
	DeleteMissingOK bool
}

// Obj is one stored object.
type Obj struct {
	Data    []byte
	Created time.Time
	Updated time.Time
}

// JournalEntry records one mutation.
type JournalEntry struct {
	Op      string // put | delete | touch | clear
	Key     string
	Existed bool
	Same    bool // put: bytes identical to previous content
	Sum     string
	At      time.Time
	Client  int
}

var (
	_ storage.Store    = &MemStore{}
	_ storage.StoreCRC = &MemStore{}
)

// ErrPrecondition mimics the GCS 412 answer as mapped by pkg/storage/gcs (ErrStorageAPI wrapping the API error).
var ErrPrecondition = storagestatus.ErrStorageAPI.Wrap(errors.New("googleapi: Error 412: Precondition Failed, conditionNotMet"))

// NotExists builds the error returned for a missing key.
func NotExists(key string) error {
	return storagestatus.ErrNotExists.Wrap(fmt.Errorf("storage: object doesn't exist: %s", key))
}

func NewMemStore(name string) *MemStore {
	return &MemStore{Name: name, objs: map[string]*Obj{}, ReadChunks: 2}
}

func (m *MemStore) String() string { return "mem://" + m.Name }

// Sum8 is a short content digest.
func Sum8(b []byte) []byte {
	h := sha256.Sum256(b)
	return h[:8]
}

func sum(b []byte) string {
	h := sha256.Sum256(b)
	return hex.EncodeToString(h[:8])
}

func (m *MemStore) Has(_ context.Context, key string) (bool, error) {
	m.mu.Lock()
	defer m.mu.Unlock()
	_, ok := m.objs[key]
	return ok, nil
}

type memReader struct {
	data    []byte
	pos     int
	chunks  int
	eofData bool
}

func (r *memReader) Read(p []byte) (int, error) {
	if r.pos >= len(r.data) {
		return 0, io.EOF
	}
	if len(p) == 0 {
		return 0, nil
	}
	max := len(r.data)
	if r.chunks > 1 {
		max = (len(r.data) + r.chunks - 1) / r.chunks
		if max < 1 {
			max = 1
		}
	}
	n := len(r.data) - r.pos
	if n > max {
		n = max
	}
	if n > len(p) {
		n = len(p)
	}
	copy(p, r.data[r.pos:r.pos+n])
	r.pos += n
	if r.eofData && r.pos >= len(r.data) {
		return n, io.EOF
	}
	return n, nil
}

func (r *memReader) Close() error { return nil }

func (r *memReader) ReadAt(p []byte, off int64) (int, error) {
	if off >= int64(len(r.data)) {
		return 0, io.EOF
	}
	n := copy(p, r.data[off:])
	if n < len(p) {
		return n, io.EOF
	}
	return n, nil
}

func (m *MemStore) Get(_ context.Context, key string) (io.ReadCloser, error) {
	m.mu.Lock()
	defer m.mu.Unlock()
	o, ok := m.objs[key]
	if !ok {
		return nil, NotExists(key)
	}
	return &memReader{data: append([]byte(nil), o.Data...), chunks: m.ReadChunks, eofData: m.EOFWithData}, nil
}

func (m *MemStore) GetAt(_ context.Context, key string) (io.ReaderAt, error) {
	m.mu.Lock()
	defer m.mu.Unlock()
	o, ok := m.objs[key]
	if !ok {
		return nil, NotExists(key)
	}
	return &memReader{data: append([]byte(nil), o.Data...)}, nil
}

func (m *MemStore) GetAttr(_ context.Context, key string) (storage.Attributes, error) {
	m.mu.Lock()
	defer m.mu.Unlock()
	o, ok := m.objs[key]
	if !ok {
		return storage.Attributes{}, NotExists(key)
	}
	a := storage.Attributes{Created: o.Created, Updated: o.Updated, Size: int64(len(o.Data)), Owner: "verif"}
	if !m.NoCRC {
		a.CRC32C = crc32.Checksum(o.Data, crc32.MakeTable(crc32.Castagnoli))
	}
	return a, nil
}

func (m *MemStore) Touch(_ context.Context, key string) error {
	m.mu.Lock()
	defer m.mu.Unlock()
	o, ok := m.objs[key]
	if !ok {
		return NotExists(key)
	}
	o.Updated = time.Now()
	m.journal(JournalEntry{Op: "touch", Key: key, Existed: true, At: o.Updated})
	return nil
}

func (m *MemStore) journal(e JournalEntry) {
	if !m.NoJournal {
		m.Journal = append(m.Journal, e)
	}
}

func (m *MemStore) Put(ctx context.Context, key string, rdr io.Reader, noOverwrite bool) error {
	return m.put(key, rdr, noOverwrite, false, 0)
}

func (m *MemStore) PutCRC(ctx context.Context, key string, rdr io.Reader, noOverwrite bool, crc uint32) error {
	return m.put(key, rdr, noOverwrite, true, crc)
}

func (m *MemStore) put(key string, rdr io.Reader, noOverwrite bool, hasCRC bool, crc uint32) error {
	data, err := io.ReadAll(rdr)
	if err != nil {
		return err
	}
	if hasCRC && crc32.Checksum(data, crc32.MakeTable(crc32.Castagnoli)) != crc {
		return storagestatus.ErrStorageAPI.Wrap(errors.New("googleapi: Error 400: Provided CRC32C doesn't match calculated CRC32C"))
	}
	m.mu.Lock()
	defer m.mu.Unlock()
	old, existed := m.objs[key]
	if existed && noOverwrite {
		return ErrPrecondition
	}
	now := time.Now()
	same := existed && bytes.Equal(old.Data, data)
	m.objs[key] = &Obj{Data: data, Created: now, Updated: now}
	m.journal(JournalEntry{Op: "put", Key: key, Existed: existed, Same: same, Sum: sum(data), At: now})
	return nil
}

func (m *MemStore) Delete(_ context.Context, key string) error {
	m.mu.Lock()
	defer m.mu.Unlock()
	if _, ok := m.objs[key]; !ok {
		if m.DeleteMissingOK {
			return nil
		}
		return NotExists(key)
	}
	delete(m.objs, key)
	m.journal(JournalEntry{Op: "delete", Key: key, Existed: true, At: time.Now()})
	return nil
}

func (m *MemStore) Clear(context.Context) error {
	m.mu.Lock()
	defer m.mu.Unlock()
	m.objs = map[string]*Obj{}
	m.journal(JournalEntry{Op: "clear", At: time.Now()})
	return nil
}

func (m *MemStore) sortedKeys() []string {
	keys := make([]string, 0, len(m.objs))
	for k := range m.objs {
		keys = append(keys, k)
	}
	sort.Strings(keys)
	return keys
}

func (m *MemStore) Keys(context.Context) ([]string, error) {
	m.mu.Lock()
	defer m.mu.Unlock()
	return m.sortedKeys(), nil
}

// ListRef is the reference listing: sorted candidates (keys, or collapsed prefixes when a delimiter is given), each once.
func ListRef(keys []string, prefix, delimiter string) []string {
	var out []string
	seen := map[string]bool{}
	sorted := append([]string(nil), keys...)
	sort.Strings(sorted)
	for _, k := range sorted {
		if !strings.HasPrefix(k, prefix) {
			continue
		}
		c := k
		if delimiter != "" {
			rest := k[len(prefix):]
			if i := strings.Index(rest, delimiter); i >= 0 {
				c = prefix + rest[:i+len(delimiter)]
			}
		}
		if !seen[c] {
			seen[c] = true
			out = append(out, c)
		}
	}
	sort.Strings(out)
	return out
}

func (m *MemStore) KeysPrefix(_ context.Context, pageToken, prefix, delimiter string, count int) ([]string, string, error) {
	m.mu.Lock()
	cands := ListRef(m.sortedKeys(), prefix, delimiter)
	m.mu.Unlock()
	if count <= 0 {
		return nil, "", storagestatus.ErrStorageAPI.Wrap(errors.New("invalid page size"))
	}
	i := sort.SearchStrings(cands, pageToken)
	if pageToken == "" {
		i = 0
	}
	end := i + count
	next := ""
	if end < len(cands) {
		next = cands[end]
	} else {
		end = len(cands)
	}
	out := append(make([]string, 0, end-i), cands[i:end]...)
	return out, next, nil
}

// ---- inspection helpers (not part of storage.Store) ----

// Snapshot returns a deep copy of the content: key -> bytes.
func (m *MemStore) Snapshot() map[string][]byte {
	m.mu.Lock()
	defer m.mu.Unlock()
	out := make(map[string][]byte, len(m.objs))
	for k, o := range m.objs {
		out[k] = append([]byte(nil), o.Data...)
	}
	return out
}

// Clone returns an independent deep copy (content and times; journal reset).
func (m *MemStore) Clone() *MemStore {
	m.mu.Lock()
	defer m.mu.Unlock()
	c := NewMemStore(m.Name)
	c.ReadChunks, c.NoCRC, c.NoJournal, c.EOFWithData, c.DeleteMissingOK = m.ReadChunks, m.NoCRC, m.NoJournal, m.EOFWithData, m.DeleteMissingOK
	for k, o := range m.objs {
		c.objs[k] = &Obj{Data: append([]byte(nil), o.Data...), Created: o.Created, Updated: o.Updated}
	}
	return c
}

// Digest is a stable digest of the content (keys and bytes).
func (m *MemStore) Digest() string {
	m.mu.Lock()
	defer m.mu.Unlock()
	h := sha256.New()
	for _, k := range m.sortedKeys() {
		fmt.Fprintf(h, "%s\x00%d\x00", k, len(m.objs[k].Data))
		h.Write(m.objs[k].Data)
	}
	return hex.EncodeToString(h.Sum(nil)[:10])
}

// Raw access for corruption / injection.
func (m *MemStore) RawGet(key string) ([]byte, bool) {
	m.mu.Lock()
	defer m.mu.Unlock()
	o, ok := m.objs[key]
	if !ok {
		return nil, false
	}
	return append([]byte(nil), o.Data...), true
}

func (m *MemStore) RawSet(key string, data []byte) {
	m.mu.Lock()
	defer m.mu.Unlock()
	now := time.Now()
	m.objs[key] = &Obj{Data: append([]byte(nil), data...), Created: now, Updated: now}
}

func (m *MemStore) RawDelete(key string) {
	m.mu.Lock()
	defer m.mu.Unlock()
	delete(m.objs, key)
}

func (m *MemStore) RawKeys() []string {
	m.mu.Lock()
	defer m.mu.Unlock()
	return m.sortedKeys()
}

func (m *MemStore) Len() int {
	m.mu.Lock()
	defer m.mu.Unlock()
	return len(m.objs)
}

func (m *MemStore) JournalLen() int {
	m.mu.Lock()
	defer m.mu.Unlock()
	return len(m.Journal)
}

func (m *MemStore) JournalSince(n int) []JournalEntry {
	m.mu.Lock()
	defer m.mu.Unlock()
	return append([]JournalEntry(nil), m.Journal[n:]...)
}
