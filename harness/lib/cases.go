package lib

import (
	"encoding/json"
	"fmt"
	"os"
	"os/exec"
	"path/filepath"
	"runtime"
	"strconv"
	"strings"
	"sync"
	"testing"
	"time"
)

// RunCases runs fn(i) for every i in [0,n) in worker subprocesses (the code under test may spin forever or die with a
// Go fatal error). Each worker journals the index it is about to run and periodically flushes its partial report;
// a worker that stalls or dies is killed, the journaled case is handed to onDead (which records a violation or an
// inconclusive note), and a new worker resumes after the last flushed case, skipping the deadly one.
//
// In the parent it orchestrates; in a worker it runs the cases. Returns true in the parent.
func RunCases(t *testing.T, rep *Report, testName string, n, workers int, stall time.Duration, fn func(i int), onDead func(i int, how, output string)) bool {
	if os.Getenv("VERIF_CASES_WORKER") != "" {
		runCasesWorker(t, rep, n, fn)
		return false
	}
	if workers <= 0 {
		workers = runtime.NumCPU()
	}
	if workers > n {
		workers = n
	}
	if workers == 0 {
		return true
	}
	dir, err := os.MkdirTemp("", "verif-cases-")
	if err != nil {
		t.Fatal(err)
	}
	defer os.RemoveAll(dir)
	var wg sync.WaitGroup
	var deaths, hangs int64
	var dmu sync.Mutex
	for w := 0; w < workers; w++ {
		wg.Add(1)
		go func(w int) {
			defer wg.Done()
			from := w // indices w, w+workers, ...
			skip := map[int]bool{}
			for attempt := 0; from < n; attempt++ {
				dmu.Lock()
				tooMany := deaths > 40 || hangs >= 3
				dmu.Unlock()
				if tooMany {
					rep.NotExhaustive(fmt.Sprintf("worker %d: stopped at case %d after %d dead cases (%d confirmed hangs): the violations already reported stand", w, from, deaths, hangs))
					return
				}
				journal := filepath.Join(dir, fmt.Sprintf("j%d", w))
				out := filepath.Join(dir, fmt.Sprintf("p%d.json", w))
				_ = os.Remove(journal)
				_ = os.Remove(out)
				var sk []string
				for k := range skip {
					sk = append(sk, strconv.Itoa(k))
				}
				cmd := exec.Command(os.Args[0], "-test.run", "^"+testName+"$", "-test.timeout", "0")
				cmd.Env = append(os.Environ(), "VERIF_CASES_WORKER=1", fmt.Sprintf("VERIF_CASES_FROM=%d", from), fmt.Sprintf("VERIF_CASES_STRIDE=%d", workers),
					"VERIF_CASES_SKIP="+strings.Join(sk, ","), "VERIF_CASES_JOURNAL="+journal, "VERIF_WORKER_OUT="+out)
				outBuf := &strings.Builder{}
				cmd.Stdout, cmd.Stderr = outBuf, outBuf
				if err := cmd.Start(); err != nil {
					rep.NotExhaustive("cannot start worker: " + err.Error())
					return
				}
				done := make(chan error, 1)
				go func() { done <- cmd.Wait() }()
				how := ""
				lastChange := time.Now()
				lastJ := ""
			wait:
				for {
					select {
					case err := <-done:
						if err != nil {
							how = "died: " + err.Error()
						}
						break wait
					case <-time.After(500 * time.Millisecond):
						b, _ := os.ReadFile(journal)
						if string(b) != lastJ {
							lastJ, lastChange = string(b), time.Now()
						} else if time.Since(lastChange) > stall {
							how = "hang"
							_ = cmd.Process.Kill()
							<-done
							break wait
						}
					}
				}
				var part Report
				doneThrough := from - workers
				if b, err := os.ReadFile(out); err == nil && json.Unmarshal(b, &part) == nil {
					rep.Merge(&part)
					if v, ok := part.Extra["__done_through"].(float64); ok {
						doneThrough = int(v)
					}
				}
				if how == "" {
					return // finished all its cases
				}
				jb, _ := os.ReadFile(journal)
				bad, jerr := strconv.Atoi(strings.TrimSpace(string(jb)))
				if jerr != nil {
					rep.NotExhaustive(fmt.Sprintf("worker %d %s before journaling a case: %s", w, how, tail(outBuf.String(), 500)))
					return
				}
				if how == "hang" {
					// a stall under load is not a hang: run that case again, alone, with a generous deadline, before believing it
					confirm := stall
					if confirm < 2*time.Minute {
						confirm = 2 * time.Minute
					}
					if confirm > 15*time.Minute {
						confirm = 15 * time.Minute
					}
					if part, ok := runSingleCase(testName, bad, confirm, dir, w); ok {
						rep.Merge(part)
						rep.Note(fmt.Sprintf("case %d made no progress for %s in a busy worker but completed when run alone (not a hang)", bad, stall))
						skip[bad] = true
						from = doneThrough + workers
						continue
					}
					how = fmt.Sprintf("hang: confirmed, no completion within %s when run alone", confirm)
				}
				dmu.Lock()
				deaths++
				if strings.HasPrefix(how, "hang") {
					hangs++
				}
				dmu.Unlock()
				onDead(bad, how, tail(outBuf.String(), 3000))
				skip[bad] = true
				from = doneThrough + workers
			}
		}(w)
	}
	wg.Wait()
	rep.mu.Lock()
	delete(rep.Extra, "__done_through")
	rep.mu.Unlock()
	return true
}

// runSingleCase runs one case in its own worker subprocess; ok is false if it did not complete within the deadline.
func runSingleCase(testName string, i int, deadline time.Duration, dir string, w int) (*Report, bool) {
	out := filepath.Join(dir, fmt.Sprintf("single%d.json", w))
	_ = os.Remove(out)
	cmd := exec.Command(os.Args[0], "-test.run", "^"+testName+"$", "-test.timeout", "0")
	cmd.Env = append(os.Environ(), "VERIF_CASES_WORKER=1", fmt.Sprintf("VERIF_CASES_ONLY=%d", i), "VERIF_CASES_JOURNAL="+filepath.Join(dir, fmt.Sprintf("sj%d", w)), "VERIF_WORKER_OUT="+out)
	var buf strings.Builder
	cmd.Stdout, cmd.Stderr = &buf, &buf
	if err := cmd.Start(); err != nil {
		return nil, false
	}
	done := make(chan error, 1)
	go func() { done <- cmd.Wait() }()
	select {
	case err := <-done:
		if err != nil {
			return nil, false
		}
	case <-time.After(deadline):
		_ = cmd.Process.Kill()
		<-done
		return nil, false
	}
	var part Report
	if b, err := os.ReadFile(out); err == nil && json.Unmarshal(b, &part) == nil {
		return &part, true
	}
	return nil, false
}

func runCasesWorker(t *testing.T, rep *Report, n int, fn func(i int)) {
	if only := os.Getenv("VERIF_CASES_ONLY"); only != "" {
		i, _ := strconv.Atoi(only)
		_ = os.WriteFile(os.Getenv("VERIF_CASES_JOURNAL"), []byte(only), 0o644)
		fn(i)
		return
	}
	from, _ := strconv.Atoi(os.Getenv("VERIF_CASES_FROM"))
	stride, _ := strconv.Atoi(os.Getenv("VERIF_CASES_STRIDE"))
	journal := os.Getenv("VERIF_CASES_JOURNAL")
	skip := map[int]bool{}
	for _, s := range strings.Split(os.Getenv("VERIF_CASES_SKIP"), ",") {
		if k, err := strconv.Atoi(s); err == nil {
			skip[k] = true
		}
	}
	lastFlush := time.Now()
	for i := from; i < n; i += stride {
		if !skip[i] {
			_ = os.WriteFile(journal, []byte(strconv.Itoa(i)), 0o644)
			fn(i)
		}
		rep.mu.Lock()
		rep.Extra["__done_through"] = float64(i)
		rep.mu.Unlock()
		if time.Since(lastFlush) > time.Second {
			rep.flushPartial()
			lastFlush = time.Now()
		}
	}
	// Finish (deferred by the caller) writes the final partial report
}

func (r *Report) flushPartial() {
	out := os.Getenv("VERIF_WORKER_OUT")
	if out == "" {
		return
	}
	r.mu.Lock()
	r.DistinctL = r.DistinctL[:0]
	for k := range r.Distinct {
		r.DistinctL = append(r.DistinctL, k)
	}
	b, err := json.Marshal(r)
	r.mu.Unlock()
	if err == nil {
		tmp := out + ".tmp"
		if os.WriteFile(tmp, b, 0o644) == nil {
			_ = os.Rename(tmp, out)
		}
	}
}

// Isolated runs body in a worker subprocess of the same test (the code under test may panic in one of its own
// goroutines or die with a Go fatal error, which no recover() can catch). The body journals what it is about to do;
// if the worker dies, onDeath receives the last journal entry and the tail of the output. Returns true in the parent.
func Isolated(t *testing.T, rep *Report, testName string, timeout time.Duration, body func(journal func(string)), onDeath func(last, output string)) bool {
	if jf := os.Getenv("VERIF_ISOLATED_JOURNAL"); jf != "" {
		body(func(s string) { _ = os.WriteFile(jf, []byte(s), 0o644) })
		return false
	}
	dir, err := os.MkdirTemp("", "verif-iso-")
	if err != nil {
		t.Fatal(err)
	}
	defer os.RemoveAll(dir)
	journal, out := filepath.Join(dir, "journal"), filepath.Join(dir, "out.json")
	cmd := exec.Command(os.Args[0], "-test.run", "^"+testName+"$", "-test.timeout", "0")
	cmd.Env = append(os.Environ(), "VERIF_ISOLATED_JOURNAL="+journal, "VERIF_WORKER_OUT="+out)
	var buf strings.Builder
	cmd.Stdout, cmd.Stderr = &buf, &buf
	if err := cmd.Start(); err != nil {
		t.Fatal(err)
	}
	done := make(chan error, 1)
	go func() { done <- cmd.Wait() }()
	var werr error
	how := ""
	select {
	case werr = <-done:
		if werr != nil {
			how = "died: " + werr.Error()
		}
	case <-time.After(timeout):
		how = "hang"
		_ = cmd.Process.Kill()
		<-done
	}
	var part Report
	if b, err := os.ReadFile(out); err == nil && json.Unmarshal(b, &part) == nil {
		rep.Merge(&part)
	} else if how == "" {
		how = "wrote no report"
	}
	if how != "" {
		last, _ := os.ReadFile(journal)
		onDeath(how+" | "+string(last), tail(buf.String(), 2500))
	}
	return true
}
