package lib

// BFSConfig drives an explicit-state breadth-first search over operation histories of a real component.
// A state is the history reaching it; successors are built by replaying history+op on a fresh instance (Canon does
// that); two histories are merged only when Canon returns the same key.
type BFSConfig[Op any] struct {
	Alphabet  func(h []Op) []Op   // enabled operations in the state reached by h, simplest first
	Canon     func(h []Op) string // build fresh instance, replay h, dump canonical state ("" = prune: invalid history)
	Visit     func(h []Op)        // invariant / observer battery, evaluated once per distinct state
	MaxDepth  int                 // 0 = unbounded (fixed point)
	MaxStates int
}

type BFSResult[Op any] struct {
	States, Transitions, Depth int
	FixedPoint                 bool
	Keys                       map[string]struct{}
	Deepest                    []Op
	DeepestKey                 string
}

func BFS[Op any](c BFSConfig[Op]) BFSResult[Op] {
	res := BFSResult[Op]{Keys: map[string]struct{}{}, FixedPoint: true}
	type node struct{ h []Op }
	k0 := c.Canon(nil)
	res.Keys[k0] = struct{}{}
	res.States = 1
	if c.Visit != nil {
		c.Visit(nil)
	}
	frontier := []node{{nil}}
	depth := 0
	for len(frontier) > 0 {
		if c.MaxDepth > 0 && depth >= c.MaxDepth {
			res.FixedPoint = false
			break
		}
		var next []node
		for _, n := range frontier {
			for _, op := range c.Alphabet(n.h) {
				h := append(append(make([]Op, 0, len(n.h)+1), n.h...), op)
				k := c.Canon(h)
				if k == "" {
					continue
				}
				res.Transitions++
				if _, seen := res.Keys[k]; seen {
					continue
				}
				res.Keys[k] = struct{}{}
				res.States++
				res.Deepest, res.DeepestKey = h, k
				if c.Visit != nil {
					c.Visit(h)
				}
				next = append(next, node{h})
				if c.MaxStates > 0 && res.States >= c.MaxStates {
					res.FixedPoint = false
					res.Depth = depth + 1
					return res
				}
			}
		}
		frontier = next
		if len(next) > 0 {
			depth++
		}
	}
	res.Depth = depth
	return res
}
