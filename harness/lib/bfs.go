package lib

import "sync"

// BFSConfig drives an explicit-state breadth-first search over operation histories of a real component.
// A state is the history reaching it; successors are built by replaying history+op on a fresh instance (Canon does
// that); two histories are merged only when Canon returns the same key.
//
// With Workers > 1 the callbacks of one level run concurrently (each builds its own instance); successors are merged
// in the canonical (frontier order x alphabet order) sequence, so the set of states, the representative history of
// every state and all counters are identical to a sequential run.
type BFSConfig[Op any] struct {
	Alphabet  func(h []Op) []Op   // enabled operations in the state reached by h, simplest first
	Canon     func(h []Op) string // build fresh instance, replay h, dump canonical state ("" = prune: invalid history)
	Visit     func(h []Op)        // invariant / observer battery, evaluated once per distinct state
	MaxDepth  int                 // 0 = unbounded (fixed point)
	MaxStates int
	Workers   int
	// Guided deepening: states first reached at depth MaxDepth for which Deepen returns true are explored for
	// ExtraDepth more levels (all their successors, de-duplicated as usual).
	Deepen     func(h []Op) bool
	ExtraDepth int
}

type BFSResult[Op any] struct {
	States, Transitions, Depth int
	FixedPoint                 bool
	Keys                       map[string]struct{}
	Deepest                    []Op
	DeepestKey                 string
	DeepenedRoots              int // states selected by Deepen at depth MaxDepth
	StatesBeyondMaxDepth       int
}

func parallelDo(workers, n int, f func(i int)) {
	if workers <= 1 || n <= 1 {
		for i := 0; i < n; i++ {
			f(i)
		}
		return
	}
	var wg sync.WaitGroup
	next := make(chan int)
	for w := 0; w < workers; w++ {
		wg.Add(1)
		go func() {
			defer wg.Done()
			for i := range next {
				f(i)
			}
		}()
	}
	for i := 0; i < n; i++ {
		next <- i
	}
	close(next)
	wg.Wait()
}

func BFS[Op any](c BFSConfig[Op]) BFSResult[Op] {
	res := BFSResult[Op]{Keys: map[string]struct{}{}, FixedPoint: true}
	k0 := c.Canon(nil)
	res.Keys[k0] = struct{}{}
	res.States = 1
	if c.Visit != nil {
		c.Visit(nil)
	}
	frontier := [][]Op{nil}
	depth := 0
	limit := c.MaxDepth
	for len(frontier) > 0 {
		if c.MaxDepth > 0 && depth >= limit {
			res.FixedPoint = false
			break
		}
		if c.MaxDepth > 0 && depth == c.MaxDepth {
			// guided deepening: keep only the selected frontier states
			var sel [][]Op
			for _, h := range frontier {
				if c.Deepen(h) {
					sel = append(sel, h)
				}
			}
			frontier = sel
			res.DeepenedRoots = len(sel)
			if len(sel) == 0 {
				break
			}
		}
		// the level is processed in chunks of frontier states (bounded memory); successors are merged in canonical order
		var next [][]Op
		full := false
		const chunk = 512
		for lo := 0; lo < len(frontier) && !full; lo += chunk {
			hi := lo + chunk
			if hi > len(frontier) {
				hi = len(frontier)
			}
			part := frontier[lo:hi]
			// 1. enabled operations of every frontier state
			alph := make([][]Op, len(part))
			parallelDo(c.Workers, len(part), func(i int) { alph[i] = c.Alphabet(part[i]) })
			// 2. successors
			var succ [][]Op
			for i, h := range part {
				for _, op := range alph[i] {
					succ = append(succ, append(append(make([]Op, 0, len(h)+1), h...), op))
				}
			}
			keys := make([]string, len(succ))
			parallelDo(c.Workers, len(succ), func(i int) { keys[i] = c.Canon(succ[i]) })
			// 3. merge in canonical order
			var fresh [][]Op
			for i, k := range keys {
				if k == "" {
					continue
				}
				res.Transitions++
				if _, seen := res.Keys[k]; seen {
					continue
				}
				res.Keys[k] = struct{}{}
				res.States++
				if c.MaxDepth > 0 && depth >= c.MaxDepth {
					res.StatesBeyondMaxDepth++
				}
				res.Deepest, res.DeepestKey = succ[i], k
				fresh = append(fresh, succ[i])
				if c.MaxStates > 0 && res.States >= c.MaxStates {
					full = true
					break
				}
			}
			// 4. observers on the new states
			if c.Visit != nil {
				parallelDo(c.Workers, len(fresh), func(i int) { c.Visit(fresh[i]) })
			}
			next = append(next, fresh...)
		}
		if full {
			res.FixedPoint = false
			res.Depth = depth + 1
			return res
		}
		frontier = next
		if len(next) > 0 {
			depth++
		}
		if c.MaxDepth > 0 && depth == c.MaxDepth && c.Deepen != nil && c.ExtraDepth > 0 {
			limit = c.MaxDepth + c.ExtraDepth
		}
	}
	res.Depth = depth
	return res
}
