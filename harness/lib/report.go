package lib

import (
	"crypto/sha256"
	"encoding/hex"
	"encoding/json"
	"fmt"
	"os"
	"os/exec"
	"path/filepath"
	"sort"
	"strconv"
	"strings"
	"sync"
	"testing"
	"time"
)

// VerifDir is the root of the verification tree.
func VerifDir() string {
	if d := os.Getenv("VERIF_DIR"); d != "" {
		return d
	}
	return "/verif"
}

// Tier is "quick" or "thorough".
func Tier() string {
	if os.Getenv("VERIF_TIER") == "thorough" {
		return "thorough"
	}
	return "quick"
}

func Thorough() bool { return Tier() == "thorough" }

func Seed() int {
	n, _ := strconv.Atoi(os.Getenv("VERIF_SEED"))
	return n
}

// Violation is one property violation found on one explored case.
type Violation struct {
	Signature string      `json:"signature"`
	Detail    string      `json:"detail"`
	Replay    interface{} `json:"replay,omitempty"`
	Count     int         `json:"count"`
}

// Report accumulates coverage and violations for one property check and writes the evidence file.
type Report struct {
	Property string `json:"property"`
	Level    string `json:"level"`

	mu          sync.Mutex
	Evaluations int64                  `json:"evaluations"`
	States      int64                  `json:"states"`
	Transitions int64                  `json:"transitions"`
	Traces      int64                  `json:"traces"`
	Distinct    map[string]struct{}    `json:"-"`
	DistinctL   []string               `json:"distinct"`
	Rule        string                 `json:"rule"`
	Samples     []interface{}          `json:"samples"`
	Exhaustive  bool                   `json:"exhaustive"`
	Extra       map[string]interface{} `json:"extra"`
	Assumptions []string               `json:"assumptions"`
	Violations  map[string]*Violation  `json:"violations"`
	Notes       []string               `json:"notes"`
	start       time.Time
	maxSamples  int
}

func NewReport(property, level string) *Report {
	return &Report{
		Property: property, Level: level, Distinct: map[string]struct{}{}, Extra: map[string]interface{}{},
		Violations: map[string]*Violation{}, start: time.Now(), Exhaustive: true, maxSamples: 6,
	}
}

func (r *Report) Eval(n int64) { r.mu.Lock(); r.Evaluations += n; r.mu.Unlock() }

// Outcome records a distinct non-trivial case/outcome key.
func (r *Report) Outcome(key string) {
	if len(key) > 24 {
		h := sha256.Sum256([]byte(key))
		key = hex.EncodeToString(h[:9])
	}
	r.mu.Lock()
	r.Distinct[key] = struct{}{}
	r.mu.Unlock()
}

func (r *Report) Sample(s interface{}) {
	r.mu.Lock()
	if len(r.Samples) < r.maxSamples {
		r.Samples = append(r.Samples, s)
	}
	r.mu.Unlock()
}

func (r *Report) AddStates(states, transitions, traces int64) {
	r.mu.Lock()
	r.States += states
	r.Transitions += transitions
	r.Traces += traces
	r.mu.Unlock()
}

func (r *Report) Set(key string, v interface{}) { r.mu.Lock(); r.Extra[key] = v; r.mu.Unlock() }

// Add adds n to a numeric extra counter.
func (r *Report) Add(key string, n int64) {
	r.mu.Lock()
	cur, _ := r.Extra[key].(float64)
	if c, ok := r.Extra[key].(int64); ok {
		cur = float64(c)
	}
	r.Extra[key] = cur + float64(n)
	r.mu.Unlock()
}

func (r *Report) Note(s string) { r.mu.Lock(); r.Notes = append(r.Notes, s); r.mu.Unlock() }
func (r *Report) Assume(s string) {
	r.mu.Lock()
	r.Assumptions = append(r.Assumptions, s)
	r.mu.Unlock()
}
func (r *Report) NotExhaustive(why string) {
	r.mu.Lock()
	r.Exhaustive = false
	r.Notes = append(r.Notes, "not exhaustive: "+why)
	r.mu.Unlock()
}

// Violate records a violation under a specific signature (see DESIGN §2.4). The first replay per signature is kept.
func (r *Report) Violate(signature, detail string, replay interface{}) {
	r.mu.Lock()
	defer r.mu.Unlock()
	if v, ok := r.Violations[signature]; ok {
		v.Count++
		return
	}
	r.Violations[signature] = &Violation{Signature: signature, Detail: detail, Replay: replay, Count: 1}
}

func (r *Report) NumViolations() int { r.mu.Lock(); defer r.mu.Unlock(); return len(r.Violations) }

// Merge folds a worker's partial report into r.
func (r *Report) Merge(o *Report) {
	r.mu.Lock()
	defer r.mu.Unlock()
	if r.Rule == "" {
		r.Rule = o.Rule
	}
	for _, a := range o.Assumptions {
		dup := false
		for _, b := range r.Assumptions {
			if a == b {
				dup = true
			}
		}
		if !dup {
			r.Assumptions = append(r.Assumptions, a)
		}
	}
	r.Evaluations += o.Evaluations
	r.States += o.States
	r.Transitions += o.Transitions
	r.Traces += o.Traces
	for _, k := range o.DistinctL {
		r.Distinct[k] = struct{}{}
	}
	for _, s := range o.Samples {
		if len(r.Samples) < r.maxSamples {
			r.Samples = append(r.Samples, s)
		}
	}
	if !o.Exhaustive {
		r.Exhaustive = false
	}
	r.Notes = append(r.Notes, o.Notes...)
	for k, v := range o.Extra {
		if f, ok := v.(float64); ok {
			cur, _ := r.Extra[k].(float64)
			r.Extra[k] = cur + f
		} else if _, exists := r.Extra[k]; !exists {
			r.Extra[k] = v
		}
	}
	for sig, v := range o.Violations {
		if cur, ok := r.Violations[sig]; ok {
			cur.Count += v.Count
		} else {
			r.Violations[sig] = v
		}
	}
}

type knownFile struct {
	Findings []struct {
		Property  string `json:"property"`
		Signature string `json:"signature"`
		What      string `json:"what"`
	} `json:"findings"`
}

func loadKnown(property string) map[string]string {
	out := map[string]string{}
	b, err := os.ReadFile(filepath.Join(VerifDir(), "known_findings.json"))
	if err != nil {
		return out
	}
	var kf knownFile
	if json.Unmarshal(b, &kf) != nil {
		return out
	}
	for _, f := range kf.Findings {
		if f.Property == property {
			out[f.Signature] = f.What
		}
	}
	return out
}

// IsWorker tells whether this process is a worker subprocess (writes a partial report instead of evidence).
func IsWorker() bool { return os.Getenv("VERIF_WORKER_OUT") != "" }

func WorkerIndex() (i, n int) {
	i, _ = strconv.Atoi(os.Getenv("VERIF_WORKER"))
	n, _ = strconv.Atoi(os.Getenv("VERIF_WORKERS"))
	if n == 0 {
		n = 1
	}
	return
}

// Finish writes the evidence (or the partial report when running as a worker), prints KNOWN-FINDING / VIOLATION
// lines and fails the test on unlisted violations.
func (r *Report) Finish(t *testing.T) {
	r.mu.Lock()
	r.DistinctL = r.DistinctL[:0]
	for k := range r.Distinct {
		r.DistinctL = append(r.DistinctL, k)
	}
	sort.Strings(r.DistinctL)
	r.mu.Unlock()

	if out := os.Getenv("VERIF_WORKER_OUT"); out != "" {
		b, err := json.Marshal(r)
		if err != nil {
			t.Fatalf("marshal partial report: %v", err)
		}
		if err := os.WriteFile(out, b, 0o644); err != nil {
			t.Fatalf("write partial report: %v", err)
		}
		return
	}

	known := loadKnown(r.Property)
	sigs := make([]string, 0, len(r.Violations))
	for s := range r.Violations {
		sigs = append(sigs, s)
	}
	sort.Strings(sigs)
	unlisted := 0
	var knownHit []string
	for _, s := range sigs {
		v := r.Violations[s]
		if what, ok := known[s]; ok {
			fmt.Printf("KNOWN-FINDING: property=%s %s [signature=%s cases=%d]\n", r.Property, what, s, v.Count)
			knownHit = append(knownHit, s)
			continue
		}
		unlisted++
		h := sha256.Sum256([]byte(s))
		dir := filepath.Join(VerifDir(), "replays", r.Property)
		if d := os.Getenv("VERIF_REPLAY_DIR"); d != "" {
			dir = filepath.Join(d, r.Property)
		}
		_ = os.MkdirAll(dir, 0o755)
		path := filepath.Join(dir, hex.EncodeToString(h[:6])+".json")
		rb, _ := json.MarshalIndent(map[string]interface{}{
			"property": r.Property, "signature": s, "detail": v.Detail, "replay": v.Replay, "cases": v.Count,
		}, "", " ")
		_ = os.WriteFile(path, rb, 0o644)
		fmt.Printf("VIOLATION property=%s replay=%s\n", r.Property, path)
		fmt.Printf("  signature: %s\n  detail: %s\n", s, strings.ReplaceAll(v.Detail, "\n", "\n    "))
	}

	cov := map[string]interface{}{
		"evaluations":         r.Evaluations,
		"distinct_nontrivial": len(r.Distinct),
		"rule":                r.Rule,
		"samples":             r.Samples,
		"exhaustive":          r.Exhaustive,
	}
	if r.Level == "model_checking" {
		cov["states"] = r.States
		cov["transitions"] = r.Transitions
		cov["traces_validated_against_impl"] = r.Traces
	}
	for k, v := range r.Extra {
		cov[k] = v
	}
	if len(r.Notes) > 0 {
		cov["notes"] = r.Notes
	}
	if len(knownHit) > 0 {
		cov["known_findings_reproduced"] = knownHit
	}
	if len(cov["samples"].([]interface{})) == 0 {
		cov["samples"] = []interface{}{"(no sample recorded)"}
	}
	ev := map[string]interface{}{
		"property_id": r.Property,
		"tier":        Tier(),
		"seed":        Seed(),
		"level":       r.Level,
		"coverage":    cov,
		"assumptions": append([]string{"harness built with go1.26.8 (runtime/stdlib) against /repo working tree, build tag verif"}, r.Assumptions...),
		"wall_s":      time.Since(r.start).Seconds(),
		"violations":  unlisted,
	}
	b, _ := json.MarshalIndent(ev, "", " ")
	evPath := os.Getenv("VERIF_EVIDENCE")
	if evPath == "" {
		evPath = filepath.Join(VerifDir(), "evidence", r.Property+".json")
	}
	_ = os.MkdirAll(filepath.Dir(evPath), 0o755)
	if err := os.WriteFile(evPath, b, 0o644); err != nil {
		t.Fatalf("write evidence: %v", err)
	}
	fmt.Printf("%s %s: evaluations=%d distinct=%d states=%d transitions=%d exhaustive=%v violations=%d known=%d wall=%.1fs\n",
		r.Property, Tier(), r.Evaluations, len(r.Distinct), r.States, r.Transitions, r.Exhaustive, unlisted, len(knownHit), time.Since(r.start).Seconds())
	if unlisted > 0 {
		t.Fail()
	}
}

// RunWorkers re-executes this test binary n times as worker subprocesses for the named test and merges their partial
// reports into r. Each worker gets VERIF_WORKER=i, VERIF_WORKERS=n. A worker that dies or times out is reported
// through onDead (which decides whether that is a violation or an inconclusive run).
func (r *Report) RunWorkers(t *testing.T, testName string, n int, timeout time.Duration, extraEnv []string, onDead func(i int, output string, timedOut bool)) {
	var wg sync.WaitGroup
	dir, err := os.MkdirTemp("", "verif-workers-")
	if err != nil {
		t.Fatal(err)
	}
	defer os.RemoveAll(dir)
	for i := 0; i < n; i++ {
		wg.Add(1)
		go func(i int) {
			defer wg.Done()
			out := filepath.Join(dir, fmt.Sprintf("w%d.json", i))
			cmd := exec.Command(os.Args[0], "-test.run", "^"+testName+"$", "-test.timeout", fmt.Sprintf("%ds", int(timeout.Seconds())+30))
			cmd.Env = append(os.Environ(), fmt.Sprintf("VERIF_WORKER=%d", i), fmt.Sprintf("VERIF_WORKERS=%d", n), "VERIF_WORKER_OUT="+out)
			cmd.Env = append(cmd.Env, extraEnv...)
			done := make(chan struct{})
			var output []byte
			var cerr error
			go func() { output, cerr = cmd.CombinedOutput(); close(done) }()
			timedOut := false
			select {
			case <-done:
			case <-time.After(timeout):
				timedOut = true
				if cmd.Process != nil {
					_ = cmd.Process.Kill()
				}
				<-done
			}
			b, rerr := os.ReadFile(out)
			if rerr != nil || timedOut {
				if onDead != nil {
					onDead(i, tail(string(output), 4000), timedOut)
				} else {
					r.NotExhaustive(fmt.Sprintf("worker %d died (timedOut=%v err=%v): %s", i, timedOut, cerr, tail(string(output), 600)))
				}
				if rerr != nil {
					return
				}
			}
			var part Report
			if err := json.Unmarshal(b, &part); err != nil {
				r.NotExhaustive(fmt.Sprintf("worker %d wrote an unreadable report: %v", i, err))
				return
			}
			r.Merge(&part)
		}(i)
	}
	wg.Wait()
}

func tail(s string, n int) string {
	if len(s) > n {
		return "…" + s[len(s)-n:]
	}
	return s
}

// Tail returns the last n bytes of s.
func Tail(s string, n int) string { return tail(s, n) }
