package lib

import (
	"context"
	"encoding/json"
	"errors"
	"fmt"
	"io"
	"math/rand"
	"os"
	"sort"
	"strings"
	"sync"
	"testing"
	"testing/synctest"
	"time"

	"github.com/oneconcern/datamon/pkg/storage"
	storagestatus "github.com/oneconcern/datamon/pkg/storage/status"
	"github.com/segmentio/ksuid"
)

// ---------------------------------------------------------------------------------------------
// E1: controlled executions. Real datamon operations run as goroutines inside a synctest bubble; every gated store
// call parks until the scheduler grants it. The scheduler's choices (which parked call next, fault / crash
// deviations, clock ticks) are the nondeterminism the explorer enumerates.
// ---------------------------------------------------------------------------------------------

type Decision int

const (
	Proceed      Decision = iota
	FailBefore            // transient error, no effect
	FailAfter             // effect happens, error returned
	CrashBefore           // client dies before the call lands
	CrashAfter            // call lands, then the client dies
	deadCall              // call of an already dead client
	FailConsumed          // writes only: the request body is read completely, nothing lands, error returned
	FailSlow              // reads only: the request hangs for SlowFailure (fake clock), then fails with a transient error
)

// SlowFailure is how long a FailSlow request hangs before it fails (a typical request timeout).
const SlowFailure = 5 * time.Minute

func (d Decision) String() string {
	return [...]string{"grant", "fail-before", "fail-after", "crash-before", "crash-after", "dead", "fail-after-reading-body", "fail-slow"}[d]
}

// ErrTransient is the injected retryable storage error.
var ErrTransient = storagestatus.ErrStorageAPI.Wrap(errors.New("injected transient failure"))

// ErrDead is what every store call of a crashed client returns (without any effect on the store).
var ErrDead = storagestatus.ErrStorageAPI.Wrap(errors.New("client crashed (injected)"))

// Call is one parked store call.
type Call struct {
	Client int
	Store  string
	Op     string
	Key    string
	Write  bool
	seq    int
	grant  chan Decision
}

func (c *Call) Desc() string { return fmt.Sprintf("c%d:%s.%s(%s)", c.Client, c.Store, c.Op, c.Key) }

// Step is one scheduler decision of an execution.
type Step struct {
	Menu     []string
	Choice   int
	Preempts []int // cost of each menu item
	Faults   []int
	Granted  string
}

// Exec is one controlled execution.
type Exec struct {
	T  *testing.T
	Sc *Scenario

	mu        sync.Mutex
	parked    []*Call
	event     chan struct{}
	dead      map[int]bool
	done      map[int]bool
	started   map[int]bool
	seq       int
	lastRun   int
	Steps     []Step
	Choices   []int
	prefix    []int
	Hung      bool
	Diverged  string
	Data      map[string]interface{} // scenario scratch space
	viol      []execViolation
	outcome   string
	ClientErr map[int]error
	Log       []string
}

type execViolation struct{ sig, detail string }

// Violate records a violation for this execution (the explorer attaches the schedule).
func (x *Exec) Violate(sig, detail string) {
	x.mu.Lock()
	x.viol = append(x.viol, execViolation{sig, detail})
	x.mu.Unlock()
}

// SetOutcome sets the observable outcome key of the execution (for counting distinct outcomes).
func (x *Exec) SetOutcome(s string) { x.outcome = s }

func (x *Exec) Logf(f string, a ...interface{}) {
	x.mu.Lock()
	x.Log = append(x.Log, fmt.Sprintf(f, a...))
	x.mu.Unlock()
}

func (x *Exec) IsDead(client int) bool { x.mu.Lock(); defer x.mu.Unlock(); return x.dead[client] }

// ClientFn is the body of one simulated process.
type ClientFn func(x *Exec, id int) error

// Scenario describes a closed system for the explorer.
type Scenario struct {
	Name string
	// Prepare runs once before the exploration starts (outside any execution).
	Prepare func(t *testing.T)
	Setup   func(x *Exec)
	Phases  [][]ClientFn // clients of phase k+1 start when every client of phase k is done or dead; ids are global, in order
	// Faults returns the deviations offered on a parked call (each costs 1 fault).
	Faults func(x *Exec, c *Call) []Decision
	// Ticks are clock advances offered at every step (each costs 1 fault) while calls are parked.
	Ticks []time.Duration
	// AllIntraOrders offers every parked call of a client (I/O completion orders); otherwise only the canonical first.
	AllIntraOrders bool
	// FreePreempt makes client switches free (explore all interleavings).
	FreePreempt bool
	AfterGrant  func(x *Exec, c *Call, d Decision)
	Final       func(x *Exec)
	Epoch       time.Time // fake time at which Setup starts (default 2020-01-01)
}

// Gate parks the calling goroutine until the scheduler decides.
func (x *Exec) Gate(client int, store, op, key string, write bool) Decision {
	x.mu.Lock()
	if x.dead[client] {
		x.mu.Unlock()
		return deadCall
	}
	c := &Call{Client: client, Store: store, Op: op, Key: key, Write: write, seq: x.seq, grant: make(chan Decision)}
	x.seq++
	x.parked = append(x.parked, c)
	x.mu.Unlock()
	select {
	case x.event <- struct{}{}:
	default:
	}
	return <-c.grant
}

func (x *Exec) signal() {
	select {
	case x.event <- struct{}{}:
	default:
	}
}

// GatedStore wraps a store for one client; every call selected by Filter is a scheduling point.
type GatedStore struct {
	Inner  storage.Store
	X      *Exec
	Client int
	Name   string
	Filter func(op, key string) bool // nil = all calls gated
}

var _ storage.Store = &GatedStore{}

func (g *GatedStore) String() string { return g.Inner.String() }

func (g *GatedStore) gate(op, key string, write bool) Decision {
	if g.Filter != nil && !g.Filter(op, key) {
		if g.X.IsDead(g.Client) {
			return deadCall
		}
		return Proceed
	}
	return g.X.Gate(g.Client, g.Name, op, key, write)
}

func errFor(d Decision) error {
	switch d {
	case FailBefore, FailAfter, FailConsumed:
		return ErrTransient
	case FailSlow:
		time.Sleep(SlowFailure)
		return ErrTransient
	default:
		return ErrDead
	}
}

func (g *GatedStore) Has(ctx context.Context, k string) (bool, error) {
	switch d := g.gate("Has", k, false); d {
	case Proceed:
		return g.Inner.Has(ctx, k)
	default:
		return false, errFor(d)
	}
}

func (g *GatedStore) Get(ctx context.Context, k string) (io.ReadCloser, error) {
	switch d := g.gate("Get", k, false); d {
	case Proceed:
		return g.Inner.Get(ctx, k)
	default:
		return nil, errFor(d)
	}
}

func (g *GatedStore) GetAttr(ctx context.Context, k string) (storage.Attributes, error) {
	switch d := g.gate("GetAttr", k, false); d {
	case Proceed:
		return g.Inner.GetAttr(ctx, k)
	default:
		return storage.Attributes{}, errFor(d)
	}
}

func (g *GatedStore) GetAt(ctx context.Context, k string) (io.ReaderAt, error) {
	switch d := g.gate("GetAt", k, false); d {
	case Proceed:
		return g.Inner.GetAt(ctx, k)
	default:
		return nil, errFor(d)
	}
}

func (g *GatedStore) write(op, k string, f func() error) error {
	switch d := g.gate(op, k, true); d {
	case Proceed:
		return f()
	case FailAfter, CrashAfter:
		_ = f()
		return errFor(d)
	default:
		return errFor(d)
	}
}

func (g *GatedStore) Touch(ctx context.Context, k string) error {
	return g.write("Touch", k, func() error { return g.Inner.Touch(ctx, k) })
}

func (g *GatedStore) Put(ctx context.Context, k string, r io.Reader, no bool) error {
	return g.writeBody("Put", k, r, func() error { return g.Inner.Put(ctx, k, r, no) })
}

// writeBody is write for calls carrying a request body: FailConsumed drains it before failing.
func (g *GatedStore) writeBody(op, k string, body io.Reader, f func() error) error {
	switch d := g.gate(op, k, true); d {
	case Proceed:
		return f()
	case FailAfter, CrashAfter:
		_ = f()
		return errFor(d)
	case FailConsumed:
		_, _ = io.Copy(io.Discard, body)
		return errFor(d)
	default:
		return errFor(d)
	}
}

func (g *GatedStore) PutCRC(ctx context.Context, k string, r io.Reader, no bool, crc uint32) error {
	return g.writeBody("Put", k, r, func() error {
		if c, ok := g.Inner.(storage.StoreCRC); ok {
			return c.PutCRC(ctx, k, r, no, crc)
		}
		return g.Inner.Put(ctx, k, r, no)
	})
}

func (g *GatedStore) Delete(ctx context.Context, k string) error {
	return g.write("Delete", k, func() error { return g.Inner.Delete(ctx, k) })
}

func (g *GatedStore) Clear(ctx context.Context) error {
	return g.write("Clear", "", func() error { return g.Inner.Clear(ctx) })
}

func (g *GatedStore) Keys(ctx context.Context) ([]string, error) {
	switch d := g.gate("Keys", "", false); d {
	case Proceed:
		return g.Inner.Keys(ctx)
	default:
		return nil, errFor(d)
	}
}

func (g *GatedStore) KeysPrefix(ctx context.Context, token, prefix, delim string, count int) ([]string, string, error) {
	switch d := g.gate("KeysPrefix", prefix+"@"+token, false); d {
	case Proceed:
		return g.Inner.KeysPrefix(ctx, token, prefix, delim, count)
	default:
		return nil, "", errFor(d)
	}
}

// ---------------------------------------------------------------------------------------------

type detRand struct{ r *rand.Rand }

func (d detRand) Read(p []byte) (int, error) { return d.r.Read(p) }

var bubbleEpoch = time.Date(2000, 1, 1, 0, 0, 0, 0, time.UTC)

// RunExec runs one execution of sc following prefix (then choice 0).
func RunExec(t *testing.T, sc *Scenario, prefix []int) *Exec {
	x := &Exec{T: t, Sc: sc, dead: map[int]bool{}, done: map[int]bool{}, started: map[int]bool{},
		lastRun: -1, prefix: prefix, Data: map[string]interface{}{}, ClientErr: map[int]error{}}
	func() {
		defer func() {
			if r := recover(); r != nil {
				s := fmt.Sprint(r)
				if strings.Contains(s, "blocked goroutines remain") || strings.Contains(s, "deadlock: main bubble goroutine has exited") {
					return // goroutines leaked by the code under test; harmless for the verdict
				}
				panic(r)
			}
		}()
		synctest.Test(t, func(t *testing.T) { x.run() })
	}()
	return x
}

func (x *Exec) run() {
	sc := x.Sc
	// channels must be created inside the bubble: blocking on a channel from outside is not "durable" and would stop the fake clock
	x.event = make(chan struct{}, 1)
	epoch := sc.Epoch
	if epoch.IsZero() {
		epoch = time.Date(2020, 1, 1, 0, 0, 0, 0, time.UTC)
	}
	time.Sleep(epoch.Sub(time.Now()))
	ksuid.SetRand(detRand{rand.New(rand.NewSource(42))})
	defer ksuid.SetRand(nil)
	if sc.Setup != nil {
		sc.Setup(x)
	}
	id := 0
	for _, phase := range sc.Phases {
		var ids []int
		for _, fn := range phase {
			cid, f := id, fn
			id++
			ids = append(ids, cid)
			x.mu.Lock()
			x.started[cid] = true
			x.mu.Unlock()
			go func() {
				err := f(x, cid)
				x.mu.Lock()
				x.ClientErr[cid] = err
				x.done[cid] = true
				x.mu.Unlock()
				x.signal()
			}()
		}
		if !x.schedule(ids) {
			break
		}
	}
	// teardown: release everything still parked as dead so goroutines unwind
	x.mu.Lock()
	for c := range x.started {
		x.dead[c] = true
	}
	p := x.parked
	x.parked = nil
	x.mu.Unlock()
	for _, c := range p {
		c.grant <- deadCall
	}
	synctest.Wait()
	if sc.Final != nil && x.Diverged == "" {
		sc.Final(x)
	}
}

func (x *Exec) phaseOver(ids []int) bool {
	x.mu.Lock()
	defer x.mu.Unlock()
	for _, c := range ids {
		if !x.done[c] {
			return false
		}
	}
	return true
}

// schedule drives the clients of one phase to completion; false = hang or divergence.
func (x *Exec) schedule(ids []int) bool {
	sc := x.Sc
	for {
		synctest.Wait()
		x.mu.Lock()
		P := append([]*Call(nil), x.parked...)
		x.mu.Unlock()
		if len(P) == 0 {
			if x.phaseOver(ids) {
				return true
			}
			// everything is blocked on timers (back-off, tickers) or deadlocked: let fake time run
			select {
			case <-x.event:
			default:
			}
			select {
			case <-x.event:
				continue
			case <-time.After(48 * time.Hour):
				if x.phaseOver(ids) {
					return true
				}
				x.Hung = true
				return false
			}
		}
		last := x.lastRun
		sort.SliceStable(P, func(i, j int) bool {
			a, b := P[i], P[j]
			if (a.Client == last) != (b.Client == last) {
				return a.Client == last
			}
			if a.Client != b.Client {
				return a.Client < b.Client
			}
			if a.Store != b.Store {
				return a.Store < b.Store
			}
			if a.Op != b.Op {
				return a.Op < b.Op
			}
			if a.Key != b.Key {
				return a.Key < b.Key
			}
			return a.seq < b.seq
		})
		offered := P
		if !sc.AllIntraOrders {
			offered = nil
			seen := map[int]bool{}
			for _, c := range P {
				if !seen[c.Client] {
					seen[c.Client] = true
					offered = append(offered, c)
				}
			}
		}
		lastParked := false
		for _, c := range P {
			if c.Client == last {
				lastParked = true
			}
		}
		type item struct {
			call *Call
			d    Decision
			tick time.Duration
			pre  int
			flt  int
			desc string
		}
		var menu []item
		for _, c := range offered {
			pre := 0
			if !sc.FreePreempt && lastParked && c.Client != last {
				pre = 1
			}
			menu = append(menu, item{call: c, d: Proceed, pre: pre, desc: c.Desc()})
		}
		if sc.Faults != nil {
			for _, c := range offered {
				pre := 0
				if !sc.FreePreempt && lastParked && c.Client != last {
					pre = 1
				}
				for _, d := range sc.Faults(x, c) {
					menu = append(menu, item{call: c, d: d, pre: pre, flt: 1, desc: d.String() + " " + c.Desc()})
				}
			}
		}
		for _, d := range sc.Ticks {
			menu = append(menu, item{tick: d, flt: 1, desc: "tick " + d.String()})
		}
		stepIdx := len(x.Steps)
		choice := 0
		if stepIdx < len(x.prefix) {
			choice = x.prefix[stepIdx]
			if choice >= len(menu) {
				x.Diverged = fmt.Sprintf("replay divergence at step %d: choice %d but menu has %d items %v", stepIdx, choice, len(menu), menuDesc(menu, func(i item) string { return i.desc }))
				return false
			}
		}
		st := Step{Choice: choice}
		for _, m := range menu {
			st.Menu = append(st.Menu, m.desc)
			st.Preempts = append(st.Preempts, m.pre)
			st.Faults = append(st.Faults, m.flt)
		}
		it := menu[choice]
		st.Granted = it.desc
		x.Steps = append(x.Steps, st)
		x.Choices = append(x.Choices, choice)
		if it.call == nil {
			time.Sleep(it.tick)
			continue
		}
		c := it.call
		x.mu.Lock()
		for i, p := range x.parked {
			if p == c {
				x.parked = append(x.parked[:i], x.parked[i+1:]...)
				break
			}
		}
		if it.d == CrashBefore || it.d == CrashAfter {
			x.dead[c.Client] = true
		}
		x.lastRun = c.Client
		x.mu.Unlock()
		c.grant <- it.d
		if it.d == CrashBefore || it.d == CrashAfter {
			// the dead client's other parked calls never land
			synctest.Wait()
			x.mu.Lock()
			var keep, drop []*Call
			for _, p := range x.parked {
				if p.Client == c.Client {
					drop = append(drop, p)
				} else {
					keep = append(keep, p)
				}
			}
			x.parked = keep
			x.mu.Unlock()
			for _, p := range drop {
				p.grant <- deadCall
			}
			// a dead client counts as done once its goroutine unwinds; mark now so phases can proceed
			synctest.Wait()
		}
		if sc.AfterGrant != nil {
			synctest.Wait()
			sc.AfterGrant(x, c, it.d)
		}
	}
}

func menuDesc[T any](m []T, f func(T) string) []string {
	out := make([]string, len(m))
	for i := range m {
		out[i] = f(m[i])
	}
	return out
}

// Trace renders the granted steps.
func (x *Exec) Trace() []string {
	out := make([]string, len(x.Steps))
	for i, s := range x.Steps {
		out[i] = fmt.Sprintf("%d/%d %s", s.Choice, len(s.Menu), s.Granted)
	}
	return out
}

// ---------------------------------------------------------------------------------------------

// Explorer is the deviation-bounded stateless DFS over scheduler choices.
type Explorer struct {
	Sc           *Scenario
	PreemptBound int // -1 = unbounded
	FaultBound   int
	MaxExecs     int           // safety cap (0 = none); hitting it marks the run non-exhaustive
	Budget       time.Duration // wall-clock budget (0 = none); hitting it marks the run non-exhaustive
	Shard, Of    int           // this process explores subtrees with index%Of==Shard at SplitDepth
	SplitDepth   int

	Execs      int
	Capped     string
	MaxSteps   int
	Hangs      int
	Outcomes   map[string]int
	Determined bool
}

type dfsNode struct {
	prefix []int
	depth  int // number of branchings taken
}

// Explore enumerates every execution within the bounds and feeds violations / outcomes into rep.
func (e *Explorer) Explore(t *testing.T, rep *Report) {
	if e.Of == 0 {
		e.Of = 1
	}
	if e.SplitDepth == 0 {
		e.SplitDepth = 2
	}
	if e.Outcomes == nil {
		e.Outcomes = map[string]int{}
	}
	start := time.Now()
	if e.Sc.Prepare != nil {
		e.Sc.Prepare(t)
	}
	// replay mode: re-execute exactly one recorded schedule of this scenario, without the explorer
	if rf := os.Getenv("VERIF_REPLAY"); rf != "" {
		var doc struct {
			Replay struct {
				Scenario string `json:"scenario"`
				Choices  []int  `json:"choices"`
			} `json:"replay"`
		}
		if b, err := os.ReadFile(rf); err == nil && json.Unmarshal(b, &doc) == nil && doc.Replay.Scenario == e.Sc.Name {
			x := RunExec(t, e.Sc, doc.Replay.Choices)
			if x.Diverged != "" {
				t.Fatalf("replay diverged: %s", x.Diverged)
			}
			e.Execs++
			rep.Eval(1)
			rep.AddStates(int64(len(x.Steps)), int64(len(x.Steps)), 1)
			fmt.Printf("REPLAY scenario=%s steps=%d outcome=%q\n", e.Sc.Name, len(x.Steps), x.outcome)
			for _, line := range x.Trace() {
				fmt.Println("  " + line)
			}
			for _, v := range x.viol {
				rep.Violate(v.sig, v.detail, map[string]interface{}{"scenario": e.Sc.Name, "choices": x.Choices, "trace": x.Trace()})
			}
			rep.Sample(map[string]interface{}{"replayed": rf})
		}
		return
	}
	// determinism proof: the default schedule twice, identical observations
	a, b := RunExec(t, e.Sc, nil), RunExec(t, e.Sc, nil)
	if strings.Join(a.Trace(), "\n") != strings.Join(b.Trace(), "\n") || a.outcome != b.outcome {
		ta, tb := a.Trace(), b.Trace()
		for i := 0; i < len(ta) && i < len(tb); i++ {
			if ta[i] != tb[i] {
				lo := i - 3
				if lo < 0 {
					lo = 0
				}
				fmt.Printf("NONDETERMINISM first difference at step %d (of %d / %d):\n  A: %v\n  B: %v\n", i, len(ta), len(tb), ta[lo:i+1], tb[lo:i+1])
				break
			}
		}
		// The explorer owns every store call, the clock and the identifiers, and proves it on the unchanged tree at every
		// run: if the same schedule gives two different observations, what the operations do depends on something inside
		// the process that is not a function of the schedule (e.g. a select between two ready channels whose choice
		// changes the result). That is reported as a violation of the property, with both traces.
		rep.Violate(rep.Property+"|not-a-function-of-the-schedule|"+e.Sc.Name, fmt.Sprintf("scenario %s, the default schedule run twice: outcomes %q vs %q\n%v\n--- vs ---\n%v", e.Sc.Name, a.outcome, b.outcome, a.Trace(), b.Trace()),
			map[string]interface{}{"scenario": e.Sc.Name, "choices": []int{}, "trace": a.Trace(), "trace_of_second_run": b.Trace()})
		for _, x := range []*Exec{a, b} {
			for _, v := range x.viol {
				rep.Violate(v.sig, v.detail+"\nschedule: "+strings.Join(x.Trace(), " ; "), map[string]interface{}{"scenario": e.Sc.Name, "choices": x.Choices, "trace": x.Trace()})
			}
		}
		return
	}
	e.Determined = true
	stack := []dfsNode{{nil, 0}}
	splitCounter := 0
	for len(stack) > 0 {
		n := stack[len(stack)-1]
		stack = stack[:len(stack)-1]
		if e.MaxExecs > 0 && e.Execs >= e.MaxExecs {
			e.Capped = fmt.Sprintf("execution cap %d", e.MaxExecs)
			break
		}
		if e.Budget > 0 && time.Since(start) > e.Budget {
			e.Capped = fmt.Sprintf("wall-clock budget %s", e.Budget)
			break
		}
		owned := true
		if e.Of > 1 {
			if n.depth < e.SplitDepth {
				owned = e.Shard == 0
			} else if n.depth == e.SplitDepth {
				mine := splitCounter%e.Of == e.Shard
				splitCounter++
				if !mine {
					continue
				}
			}
		}
		x := RunExec(t, e.Sc, n.prefix)
		if x.Diverged != "" {
			// replaying a recorded prefix met a different menu of parked calls: same cause as above
			rep.Violate(rep.Property+"|not-a-function-of-the-schedule|"+e.Sc.Name, fmt.Sprintf("scenario %s: %s (prefix %v)\n%v", e.Sc.Name, x.Diverged, n.prefix, x.Trace()),
				map[string]interface{}{"scenario": e.Sc.Name, "choices": n.prefix, "trace": x.Trace()})
			continue
		}
		if owned {
			e.Execs++
			if len(x.Steps) > e.MaxSteps {
				e.MaxSteps = len(x.Steps)
			}
			if x.Hung {
				e.Hangs++
			}
			e.Outcomes[x.outcome]++
			rep.Eval(1)
			rep.AddStates(int64(len(x.Steps)-len(n.prefix)+1), int64(len(x.Steps)-len(n.prefix)), 1)
			for _, v := range x.viol {
				rep.Violate(v.sig, v.detail+"\nschedule: "+strings.Join(x.Trace(), " ; "), map[string]interface{}{"scenario": e.Sc.Name, "choices": x.Choices, "trace": x.Trace(), "log": x.Log})
			}
			if e.Execs == 1 {
				rep.Sample(map[string]interface{}{"scenario": e.Sc.Name, "default_schedule": x.Trace(), "outcome": x.outcome})
			}
		}
		// push alternatives for every step after the prefix
		pre, flt := 0, 0
		for i, s := range x.Steps {
			if i >= len(n.prefix) {
				for alt := len(s.Menu) - 1; alt >= 1; alt-- {
					p2, f2 := pre+s.Preempts[alt], flt+s.Faults[alt]
					if (e.PreemptBound >= 0 && p2 > e.PreemptBound) || f2 > e.FaultBound {
						continue
					}
					np := append(append(make([]int, 0, i+1), x.Choices[:i]...), alt)
					stack = append(stack, dfsNode{np, n.depth + 1})
				}
			}
			pre += s.Preempts[s.Choice]
			flt += s.Faults[s.Choice]
		}
	}
	if e.Capped != "" {
		rep.NotExhaustive(fmt.Sprintf("scenario %s: %s hit after %d executions", e.Sc.Name, e.Capped, e.Execs))
	}
	for o := range e.Outcomes {
		rep.Outcome(e.Sc.Name + "|" + o)
	}
}

// Bubble runs f inside a synctest bubble starting at the scenario epoch (2020-01-01) with deterministic KSUID randomness.
// Goroutines leaked by the code under test (blocked forever) do not fail the caller.
func Bubble(t *testing.T, f func()) {
	defer func() {
		if r := recover(); r != nil {
			s := fmt.Sprint(r)
			if strings.Contains(s, "blocked goroutines remain") || strings.Contains(s, "deadlock: main bubble goroutine has exited") {
				return
			}
			panic(r)
		}
	}()
	synctest.Test(t, func(t *testing.T) {
		time.Sleep(time.Date(2020, 1, 1, 0, 0, 0, 0, time.UTC).Sub(time.Now()))
		ksuid.SetRand(detRand{rand.New(rand.NewSource(42))})
		defer ksuid.SetRand(nil)
		f()
	})
}

// Await runs f in a goroutine of the current bubble and reports whether it returned once everything is quiescent
// (false = f is blocked forever or waiting on a timer beyond the given fake duration).
func Await(f func(), patience time.Duration) bool {
	done := make(chan struct{})
	go func() { f(); close(done) }()
	synctest.Wait()
	select {
	case <-done:
		return true
	default:
	}
	select {
	case <-done:
		return true
	case <-time.After(patience):
		return false
	}
}
